//! C20: concurrent readers of a shared store see sequential results.
//!
//! Real threads that hold `&AnnotationStore` only, driven by a deterministic scheduler: every
//! thread blocks at each `stam::verif::yield_point` (the hooks sit immediately before every read or
//! write of the serialisation mode and of the changed flags) until the controller lets it proceed,
//! and exactly one thread runs at any time.  A schedule is the list of threads chosen at the
//! scheduling decisions; all schedules of a scenario are enumerated by re-execution (stateless
//! depth-first search).  Per thread the string it obtained is reduced to how each member of the
//! store appears in it (with its content, or as `@include`) and compared with what the same call
//! returns when it runs alone on an identical store.
use crate::out::{guard, Out};
use crate::rng::Rng;
use crate::sx::{a, b, l, Sx};
use stam::*;
use std::cell::RefCell;
use std::collections::HashMap;
use std::path::PathBuf;
use std::sync::atomic::{AtomicUsize, Ordering};
use std::sync::{Arc, Condvar, Mutex, Once};
use std::time::Duration;

// ------------------------------------------------------------------ scheduler

#[derive(Clone, Copy, PartialEq, Debug)]
enum St {
    NotStarted,
    Waiting,
    Running,
    /// scheduled, but stuck on a real lock that a descheduled thread holds (never on the unchanged library)
    Blocked,
    Done,
}

struct SchedState {
    status: Vec<St>,
    turn: Option<usize>,
    sites: Vec<Vec<u8>>,
}

struct Sched {
    m: Mutex<SchedState>,
    cv: Condvar,
}

thread_local! {
    /// set in the threads that are under the control of a scheduler; everybody else
    /// (set-up, solo runs) passes the yield points without stopping
    static ME: RefCell<Option<(usize, Arc<Sched>)>> = RefCell::new(None);
}

thread_local! {
    /// set in threads that run without the scheduler next to other threads: there a look at a file
    /// right after a call has returned is not atomic with the return (another reader may be
    /// rewriting the file at that moment), so the per-call look is left to the scheduled runs
    static UNSCHEDULED: std::cell::Cell<bool> = std::cell::Cell::new(false);
}

fn yield_callback(site: u8) {
    let me = ME.with(|m| m.borrow().clone());
    if let Some((i, s)) = me {
        s.wait_turn(i, site);
    }
}

static INSTALL: Once = Once::new();
static DIRCOUNT: AtomicUsize = AtomicUsize::new(0);

impl Sched {
    fn new(n: usize) -> Arc<Sched> {
        Arc::new(Sched {
            m: Mutex::new(SchedState { status: vec![St::NotStarted; n], turn: None, sites: vec![Vec::new(); n] }),
            cv: Condvar::new(),
        })
    }
    fn wait_turn(&self, i: usize, site: u8) {
        let mut g = self.m.lock().unwrap_or_else(|e| e.into_inner());
        g.status[i] = St::Waiting;
        g.sites[i].push(site);
        self.cv.notify_all();
        while g.turn != Some(i) {
            g = self.cv.wait(g).unwrap_or_else(|e| e.into_inner());
        }
        g.turn = None;
    }
    fn done(&self, i: usize) {
        let mut g = self.m.lock().unwrap_or_else(|e| e.into_inner());
        g.status[i] = St::Done;
        self.cv.notify_all();
    }
    /// Runs the controller until every thread is done.  `choose(decision index, enabled threads)`
    /// picks the thread to run; returns the choices made and the enabled set at every decision.
    fn control(&self, mut choose: impl FnMut(usize, &[usize]) -> usize) -> Result<(Vec<usize>, Vec<Vec<usize>>), String> {
        let mut actual = Vec::new();
        let mut enabled_at = Vec::new();
        loop {
            let mut g = self.m.lock().unwrap_or_else(|e| e.into_inner());
            let mut waited = 0u32;
            loop {
                let quiet = g.turn.is_none() && g.status.iter().all(|s| matches!(s, St::Waiting | St::Done | St::Blocked));
                let some_enabled = g.status.iter().any(|s| *s == St::Waiting);
                let some_blocked = g.status.iter().any(|s| *s == St::Blocked);
                if quiet && (some_enabled || !some_blocked) {
                    break;
                }
                let (g2, to) = self.cv.wait_timeout(g, Duration::from_millis(1000)).unwrap_or_else(|e| e.into_inner());
                g = g2;
                if to.timed_out() {
                    waited += 1;
                    // a thread that was let go and neither reaches a yield point nor finishes is
                    // waiting for a real lock held by a thread that is parked at a yield point:
                    // leave it where it is and go on with the others
                    if g.turn.is_none() {
                        for st in g.status.iter_mut() {
                            if *st == St::Running {
                                *st = St::Blocked;
                            }
                        }
                    }
                    if waited > 30 {
                        return Err(format!("scheduler: a thread neither reached a yield point nor finished within 30 s ({:?})", g.status));
                    }
                }
            }
            let enabled: Vec<usize> = (0..g.status.len()).filter(|i| g.status[*i] == St::Waiting).collect();
            if enabled.is_empty() {
                return Ok((actual, enabled_at));
            }
            let c = choose(actual.len(), &enabled);
            let c = if enabled.contains(&c) { c } else { enabled[0] };
            actual.push(c);
            enabled_at.push(enabled);
            g.status[c] = St::Running;
            g.turn = Some(c);
            self.cv.notify_all();
        }
    }
}

// ------------------------------------------------------------------ scenarios

#[derive(Clone, Debug, PartialEq, Eq, Hash)]
pub struct Scen {
    /// 0 inline resource, 1 stand-off plain-text resource, 2 stand-off .json resource,
    /// 3 inline dataset, 4 stand-off dataset, 5 stand-off dataset whose file cannot be written;
    /// resources first
    pub mem: Vec<u8>,
    pub chg: Vec<bool>,
    /// (kind, member, variant)
    pub ops: Vec<(u8, usize, u8)>,
    /// number of keys of every dataset (1 except in the shared-pool family)
    pub nkeys: usize,
}

fn is_resource(k: u8) -> bool {
    k <= 2 || k == 6
}
fn standoff(k: u8) -> bool {
    k == 1 || k == 2 || k == 4 || k == 5 || k == 6
}

impl Scen {
    fn from_sx(x: &Sx) -> Scen {
        Scen {
            mem: x.nth(0).list().iter().map(|v| v.int().clamp(0, 7) as u8).collect(),
            chg: x.nth(1).list().iter().map(|v| v.int() != 0).collect(),
            ops: x.nth(2).list().iter().map(|o| (o.nth(0).int().clamp(0, 13) as u8, o.nth(1).int().max(0) as usize, o.nth(2).int().clamp(0, 9) as u8)).collect(),
            nkeys: if x.nth(4).int() == 2 { x.nth(5).int().clamp(1, 200) as usize } else { 1 },
        }
    }
    fn to_sx_free(&self) -> Sx {
        let mut v = match self.to_sx(&[]) {
            Sx::L(v) => v,
            x => vec![x],
        };
        v.push(a(1));
        l(v)
    }
    fn to_sx(&self, sched: &[usize]) -> Sx {
        l(vec![
            l(self.mem.iter().map(|k| a(*k as i64)).collect()),
            l(self.chg.iter().map(|c| b(*c)).collect()),
            l(self.ops.iter().map(|(k, i, v)| l(vec![a(*k as i64), a(*i as i64), a(*v as i64)])).collect()),
            l(sched.iter().map(|t| a(*t as i64)).collect()),
        ])
    }
    /// the store is kept in the CBOR format when one of the readers saves it that way
    fn cbor(&self) -> bool {
        self.ops.iter().any(|(k, _, _)| *k == 10)
    }
    fn well_formed(&self) -> bool {
        // sub-stores first, then resources, then datasets
        let rank = |k: u8| if k == 7 { 0 } else if is_resource(k) { 1 } else { 2 };
        if self.mem.windows(2).any(|w| rank(w[0]) > rank(w[1])) {
            return false;
        }
        let nsub = self.mem.iter().filter(|k| **k == 7).count();
        // a sub-store is not a member that can be serialised on its own; sub-stores need a JSON store
        if self.ops.iter().any(|(k, i, _)| matches!(*k, 2 | 3 | 4 | 5 | 8 | 9 | 11 | 12) && *i < self.mem.len() && self.mem[*i] == 7) || (nsub > 0 && self.cbor()) {
            return false;
        }
        self.chg.len() == self.mem.len()
            && self.mem.len() <= 6
            && !self.ops.is_empty()
            && self.ops.len() <= 4
            && self.ops.iter().all(|(k, i, _)| *k <= 1 || *k == 6 || *k == 7 || *k == 10 || *k == 13 || *i < self.mem.len())
            // a CBOR-format store (a reader saves it): only calls that do not need the store's Config to be JSON
            && (!self.cbor() || self.ops.iter().all(|(k, _, _)| matches!(*k, 0 | 3 | 6 | 8 | 9 | 10 | 11 | 13)))
            && (0..self.mem.len()).all(|i| !self.chg[i] || standoff(self.mem[i]))
    }
}

/// what a thread obtained: the member forms found in the string (or a marker) and the string itself
#[derive(Clone, Debug, PartialEq)]
struct Got {
    tokens: Vec<i64>,
    text: String,
}

pub struct Ctx {
    dir: PathBuf,
    solo: RefCell<HashMap<(Vec<u8>, Vec<bool>, usize, bool, (u8, usize, u8)), Got>>,
    /// stores with many annotations for the parallel adaptors, by size
    big: RefCell<HashMap<usize, std::rc::Rc<AnnotationStore>>>,
}

impl Drop for Ctx {
    fn drop(&mut self) {
        if std::env::var("VERIF_KEEP").is_ok() {
            return;
        }
        let _ = std::fs::remove_dir_all(&self.dir);
    }
}

fn member_id(i: usize) -> String {
    format!("m{}", i)
}

fn member_file(i: usize, k: u8) -> String {
    if k == 1 {
        format!("m{}.txt", i)
    } else if k == 7 {
        format!("m{}.store.stam.json", i)
    } else if k == 5 {
        format!("sub{}/m{}.json", i, i)
    } else if k == 6 {
        format!("sub{}/m{}.txt", i, i)
    } else {
        format!("m{}.json", i)
    }
}

fn form_of(v: &serde_json::Value, i: usize) -> i64 {
    if v.get("@include").is_some() {
        2 * i as i64 + 1
    } else {
        2 * i as i64
    }
}

impl Ctx {
    pub fn new() -> Self {
        INSTALL.call_once(|| stam::verif::set_yield_callback(Some(yield_callback)));
        let base = std::env::var("VERIF_WORK").unwrap_or_else(|_| "/verif/.cache/work".to_string());
        let n = DIRCOUNT.fetch_add(1, Ordering::SeqCst);
        let dir = PathBuf::from(base).join("c20").join(format!("p{}-{}", std::process::id(), n));
        std::fs::create_dir_all(&dir).expect("cannot create the C20 work directory");
        Ctx { dir, solo: RefCell::new(HashMap::new()), big: RefCell::new(HashMap::new()) }
    }

    /// A fresh store for the scenario, built through the public API only; stand-off members have
    /// their files in the work directory; the changed flags are as requested when this returns.
    fn build(&self, sc: &Scen) -> Result<AnnotationStore, String> {
        if let Ok(rd) = std::fs::read_dir(&self.dir) {
            for e in rd.flatten() {
                if e.path().is_dir() {
                    let _ = std::fs::remove_dir_all(e.path());
                } else {
                    let _ = std::fs::remove_file(e.path());
                }
            }
        }
        let e = |x: StamError| format!("{:?}", x);
        let w = |name: &str, content: String| std::fs::write(self.dir.join(name), content).map_err(|x| x.to_string());
        for (i, k) in sc.mem.iter().enumerate() {
            match *k {
                1 => {
                    // pending text (changed flag set) is not on disk
                    if !sc.chg[i] {
                        w(&member_file(i, 1), format!("Hello plain text {}", i))?
                    }
                }
                6 => {
                    if !sc.chg[i] {
                        std::fs::create_dir_all(self.dir.join(format!("sub{}", i))).map_err(|x| x.to_string())?;
                        w(&member_file(i, 6), format!("Hello plain text {}", i))?
                    }
                }
                2 => w(&member_file(i, 2), format!("{{\"@type\":\"TextResource\",\"@id\":\"m{}\",\"text\":\"Hello json text {}\"}}", i, i))?,
                4 | 5 => w(
                    &{
                        if *k == 5 {
                            std::fs::create_dir_all(self.dir.join(format!("sub{}", i))).map_err(|x| x.to_string())?;
                        }
                        member_file(i, *k)
                    },
                    {
                        // first key "k" with data D<i> (used by the annotations), then k1.. with data of their own
                        let mut keys = String::from("{\"@type\":\"DataKey\",\"@id\":\"k\"}");
                        let mut data = format!("{{\"@type\":\"AnnotationData\",\"@id\":\"D{}\",\"key\":\"k\",\"value\":{{\"@type\":\"String\",\"value\":\"v\"}}}}", i);
                        for j in 1..sc.nkeys {
                            keys.push_str(&format!(",{{\"@type\":\"DataKey\",\"@id\":\"k{}\"}}", j));
                            data.push_str(&format!(",{{\"@type\":\"AnnotationData\",\"@id\":\"D{}_{}\",\"key\":\"k{}\",\"value\":{{\"@type\":\"String\",\"value\":\"value {}\"}}}}", i, j, j, j));
                        }
                        format!("{{\"@type\":\"AnnotationDataSet\",\"@id\":\"m{}\",\"keys\":[{}],\"data\":[{}]}}", i, keys, data)
                    },
                )?,
                _ => {}
            }
        }
        let config = Config::default().with_workdir(self.dir.to_string_lossy().to_string());
        let mut store = AnnotationStore::new(config).with_id("s");
        if sc.cbor() {
            // filename first: the (empty) store switches to the CBOR format, the working directory stays
            store.set_filename(self.dir.join("s.store.stam.cbor").to_string_lossy().as_ref());
        }
        let mut first_res = None;
        let mut first_set = None;
        for (i, k) in sc.mem.iter().enumerate() {
            let id = member_id(i);
            if *k == 7 {
                continue;
            }
            match *k {
                0 => {
                    store.add_resource(TextResourceBuilder::new().with_id(id).with_text(format!("Hello inline text {}", i))).map_err(e)?;
                }
                1 | 6 => {
                    if sc.chg[i] {
                        // text supplied together with a filename: the file counts as new -> changed
                        store.add_resource(TextResourceBuilder::new().with_id(id).with_text(format!("Hello plain text {}", i)).with_filename(member_file(i, *k))).map_err(e)?;
                    } else {
                        store.add_resource(TextResourceBuilder::new().with_id(id).with_filename(member_file(i, *k))).map_err(e)?;
                    }
                }
                2 => {
                    store.add_resource(TextResourceBuilder::new().with_id(id).with_filename(member_file(i, 2))).map_err(e)?;
                }
                3 => {
                    let mut builder = AnnotationDataSetBuilder::new().with_id(id).with_key_value_id("k", "v", format!("D{}", i));
                    for j in 1..sc.nkeys {
                        builder = builder.with_key_value_id(format!("k{}", j), format!("value {}", j), format!("D{}_{}", i, j));
                    }
                    store.add_dataset(builder).map_err(e)?;
                }
                _ => {
                    store.add_dataset(AnnotationDataSetBuilder::new().with_filename(member_file(i, *k))).map_err(e)?;
                }
            }
            if is_resource(*k) && first_res.is_none() {
                first_res = Some(i);
            }
            if !is_resource(*k) && first_set.is_none() {
                first_set = Some(i);
            }
        }
        if let (Some(r), Some(d)) = (first_res, first_set) {
            store
                .annotate(
                    AnnotationBuilder::new()
                        .with_id("a0")
                        .with_target(SelectorBuilder::textselector(member_id(r), Offset::simple(0, 5)))
                        .with_existing_data(member_id(d), format!("D{}", d)),
                )
                .map_err(e)?;
            store
                .annotate(
                    AnnotationBuilder::new()
                        .with_id("a1")
                        .with_target(SelectorBuilder::textselector(member_id(r), Offset::simple(6, 11)))
                        .with_existing_data(member_id(d), format!("D{}", d)),
                )
                .map_err(e)?;
        }
        // sub-stores (written as @include by the store serialisation, which also writes their files);
        // the second annotation goes to the first one
        let mut first_sub = true;
        for (i, k) in sc.mem.iter().enumerate() {
            if *k == 7 {
                store.add_new_substore(member_id(i), member_file(i, 7).as_str()).map_err(e)?;
                if first_sub && first_res.is_some() && first_set.is_some() {
                    <AnnotationStore as AssociateSubStore<Annotation>>::associate_substore(&mut store, "a1", member_id(i).as_str()).map_err(e)?;
                }
                first_sub = false;
            }
        }
        // Members loaded from a stand-off .json file come out of the loader marked as changed.
        // Where the scenario wants the flag cleared, one (single-threaded) serialisation of the
        // member flushes it and clears the flag.
        for (i, k) in sc.mem.iter().enumerate() {
            if standoff(*k) && !sc.chg[i] {
                if is_resource(*k) {
                    store.resource(member_id(i).as_str()).ok_or("resource missing")?.as_ref().to_json_string().map_err(e)?;
                } else {
                    store.dataset(member_id(i).as_str()).ok_or("dataset missing")?.as_ref().to_json_string().map_err(e)?;
                }
            }
        }
        // the directory of an unwritable stand-off file disappears once the store is loaded
        for (i, k) in sc.mem.iter().enumerate() {
            if *k == 5 || *k == 6 {
                let _ = std::fs::remove_dir_all(self.dir.join(format!("sub{}", i)));
            }
        }
        // pending content (changed flag set) is not on disk: a call that writes the member as
        // @include and returns Ok must have put it there
        for (i, k) in sc.mem.iter().enumerate() {
            if sc.chg[i] && (*k == 1 || *k == 2 || *k == 4) {
                let _ = std::fs::remove_file(self.dir.join(member_file(i, *k)));
            }
        }
        std::fs::create_dir_all(self.dir.join("export")).map_err(|x| x.to_string())?;
        Ok(store)
    }

    /// is the stand-off file of member i rewritten by a solo store serialisation?
    /// (the only way to see a changed flag from outside)
    fn flushes(&self, sc: &Scen, i: usize) -> Result<bool, String> {
        let store = self.build(sc)?;
        let p = self.dir.join(member_file(i, sc.mem[i]));
        let _ = std::fs::remove_file(&p);
        let _ = run_op(&store, sc, (1, 0, 0));
        Ok(p.exists())
    }

    fn solo(&self, sc: &Scen, op: (u8, usize, u8)) -> Got {
        let key = (sc.mem.clone(), sc.chg.clone(), sc.nkeys, sc.cbor(), op);
        if let Some(g) = self.solo.borrow().get(&key) {
            return g.clone();
        }
        let g = match self.build(sc) {
            Ok(store) => guard(|| run_op(&store, sc, op)).unwrap_or(Got { tokens: vec![-1], text: String::new() }),
            Err(m) => Got { tokens: vec![-6], text: m },
        };
        self.solo.borrow_mut().insert(key, g.clone());
        g
    }

    /// one execution under the scheduler
    /// 1 where the stand-off file of a member does not hold the member's content
    fn file_status(&self, sc: &Scen, results: &[Got]) -> Vec<i64> {
        sc.mem
            .iter()
            .enumerate()
            .map(|(i, k)| {
                if *k == 7 {
                    if !results.iter().any(|g| g.tokens.contains(&(2 * i as i64 + 1))) {
                        return 0;
                    }
                    return if substore_file_ok(&self.dir, i) { 0 } else { 1 };
                }
                if !standoff(*k) || *k == 5 || *k == 6 {
                    return 0;
                }
                // only a call that returned Ok with this member as @include vouches for the file
                if !results.iter().any(|g| g.tokens.contains(&(2 * i as i64 + 1))) {
                    return 0;
                }
                let content = std::fs::read_to_string(self.dir.join(member_file(i, *k))).unwrap_or_default();
                let good = match *k {
                    1 => content == format!("Hello plain text {}", i),
                    2 => match serde_json::from_str::<serde_json::Value>(&content) {
                        Ok(v) => v.get("@include").is_none() && v.get("text").and_then(|t| t.as_str()) == Some(format!("Hello json text {}", i).as_str()),
                        Err(_) => false,
                    },
                    _ => match serde_json::from_str::<serde_json::Value>(&content) {
                        Ok(v) => v.get("@include").is_none() && v.get("keys").map(|x| x.is_array()).unwrap_or(false) && v.get("data").map(|x| x.is_array()).unwrap_or(false),
                        Err(_) => false,
                    },
                };
                if good {
                    0
                } else {
                    1
                }
            })
            .collect()
    }

    fn run_sched(&self, sc: &Scen, choose: impl FnMut(usize, &[usize]) -> usize) -> Result<(Vec<usize>, Vec<Vec<usize>>, Vec<Got>, Vec<Vec<u8>>, Vec<i64>), String> {
        for op in &sc.ops {
            // (cached) solo results first: computing them rebuilds the store and its files
            let _ = self.solo(sc, *op);
        }
        let store = self.build(sc)?;
        let n = sc.ops.len();
        let sched = Sched::new(n);
        let mut results: Vec<Got> = Vec::new();
        let mut ctl: Result<(Vec<usize>, Vec<Vec<usize>>), String> = Err(String::new());
        std::thread::scope(|scope| {
            let mut handles = Vec::new();
            for (i, op) in sc.ops.iter().enumerate() {
                let s = sched.clone();
                let store_ref = &store;
                let op = *op;
                handles.push(scope.spawn(move || {
                    ME.with(|m| *m.borrow_mut() = Some((i, s.clone())));
                    s.wait_turn(i, 0);
                    let r = guard(|| run_op(store_ref, sc, op));
                    ME.with(|m| *m.borrow_mut() = None);
                    s.done(i);
                    r.unwrap_or(Got { tokens: vec![-1], text: String::new() })
                }));
            }
            ctl = sched.control(choose);
            if ctl.is_err() {
                // a thread is stuck: nothing sensible can be done with it
                eprintln!("C20 harness: {}", ctl.as_ref().err().unwrap());
                std::process::exit(3);
            }
            for h in handles {
                results.push(h.join().unwrap_or(Got { tokens: vec![-1], text: String::new() }));
            }
        });
        let (actual, enabled) = ctl?;
        let sites = sched.m.lock().unwrap_or_else(|e| e.into_inner()).sites.clone();
        let files = self.file_status(sc, &results);
        Ok((actual, enabled, results, sites, files))
    }

    /// the threads started together, no scheduler: the operating system interleaves them
    fn run_free(&self, sc: &Scen) -> Result<(Vec<Got>, Vec<i64>), String> {
        for op in &sc.ops {
            let _ = self.solo(sc, *op);
        }
        let store = self.build(sc)?;
        let barrier = std::sync::Barrier::new(sc.ops.len());
        let mut results: Vec<Got> = Vec::new();
        std::thread::scope(|scope| {
            let mut handles = Vec::new();
            for op in sc.ops.iter() {
                let store_ref = &store;
                let bar = &barrier;
                let op = *op;
                handles.push(scope.spawn(move || {
                    UNSCHEDULED.with(|u| u.set(true));
                    bar.wait();
                    guard(|| run_op(store_ref, sc, op)).unwrap_or(Got { tokens: vec![-1], text: String::new() })
                }));
            }
            for h in handles {
                results.push(h.join().unwrap_or(Got { tokens: vec![-1], text: String::new() }));
            }
        });
        let files = self.file_status(sc, &results);
        Ok((results, files))
    }

    /// Readers whose calls run as jobs on ONE shared rayon pool (how = 0: every reader is an
    /// ordinary thread that hands each call to the pool with install(); how = 1: all calls of all
    /// readers are spawned into one pool scope).  Every call is compared with the solo result; per
    /// reader the first deviating result is kept.
    fn run_pool(&self, sc: &Scen, workers: usize, rounds: usize, how: u8) -> Result<(Vec<Got>, Vec<i64>, u64), String> {
        let solos: Vec<Got> = sc.ops.iter().map(|op| self.solo(sc, *op)).collect();
        let store = self.build(sc)?;
        let pool = rayon::ThreadPoolBuilder::new().num_threads(workers).build().map_err(|x| x.to_string())?;
        let deviating: Mutex<Vec<Option<Got>>> = Mutex::new(vec![None; sc.ops.len()]);
        let ncalls = std::sync::atomic::AtomicU64::new(0);
        let one_call = |i: usize| {
            UNSCHEDULED.with(|u| u.set(true));
            let got = guard(|| run_op(&store, sc, sc.ops[i])).unwrap_or(Got { tokens: vec![-1], text: String::new() });
            ncalls.fetch_add(1, Ordering::Relaxed);
            if got != solos[i] {
                let mut d = deviating.lock().unwrap_or_else(|e| e.into_inner());
                if d[i].is_none() {
                    d[i] = Some(got);
                }
            }
        };
        if how == 0 {
            std::thread::scope(|scope| {
                for i in 0..sc.ops.len() {
                    let (pool, one_call) = (&pool, &one_call);
                    scope.spawn(move || {
                        for _ in 0..rounds {
                            pool.install(|| one_call(i));
                        }
                    });
                }
            });
        } else {
            pool.scope(|s| {
                for _ in 0..rounds {
                    for i in 0..sc.ops.len() {
                        let one_call = &one_call;
                        s.spawn(move |_| one_call(i));
                    }
                }
            });
        }
        let dev = deviating.lock().unwrap_or_else(|e| e.into_inner()).clone();
        let results: Vec<Got> = dev.into_iter().enumerate().map(|(i, d)| d.unwrap_or_else(|| solos[i].clone())).collect();
        let files = self.file_status(sc, &results);
        Ok((results, files, ncalls.load(Ordering::Relaxed)))
    }

    fn observe(&self, sc: &Scen, results: &[Got], files: &[i64]) -> Vec<Sx> {
        let mut v: Vec<Sx> = results
            .iter()
            .enumerate()
            .map(|(i, g)| {
                let solo = self.solo(sc, sc.ops[i]);
                l(vec![l(g.tokens.iter().map(|t| a(*t)).collect()), b(g.text == solo.text && g.tokens == solo.tokens), a(1)])
            })
            .collect();
        v.push(l(files.iter().map(|f| a(*f)).collect()));
        v
    }

    pub fn exec(&self, req: &Sx) -> (Sx, Vec<Sx>, bool) {
        if let Sx::A(8) = req.nth(0) {
            return self.exec_parallel(req);
        }
        let sc = Scen::from_sx(req);
        if !sc.well_formed() {
            // not a scenario: the empty scenario (no members, no threads) stands in for it
            return (l(vec![l(vec![]), l(vec![]), l(vec![]), l(vec![])]), vec![l(vec![])], false);
        }
        if req.nth(4).int() == 2 {
            let workers = req.nth(6).int().clamp(1, 16) as usize;
            let rounds = req.nth(7).int().clamp(1, 5000) as usize;
            let how = req.nth(8).int().clamp(0, 1) as u8;
            let mut input = match sc.to_sx(&[]) {
                Sx::L(v) => v,
                x => vec![x],
            };
            input.extend(vec![a(2), a(sc.nkeys as i64), a(workers as i64), a(rounds as i64), a(how as i64)]);
            return match self.run_pool(&sc, workers, rounds, how) {
                Ok((results, files, _)) => (l(input), self.observe(&sc, &results, &files), sc.ops.len() >= 2 && workers >= 2),
                Err(m) => {
                    eprintln!("C20 harness: scenario could not be built: {}", m);
                    (req.clone(), sc.ops.iter().map(|_| l(vec![l(vec![a(-6)]), a(0), a(1)])).chain(std::iter::once(l(vec![a(-6)]))).collect(), false)
                }
            };
        }
        if req.nth(4).int() != 0 {
            return match self.run_free(&sc) {
                Ok((results, files)) => (sc.to_sx_free(), self.observe(&sc, &results, &files), sc.ops.len() >= 2 && sc.mem.iter().any(|k| standoff(*k))),
                Err(m) => {
                    eprintln!("C20 harness: scenario could not be built: {}", m);
                    (req.clone(), sc.ops.iter().map(|_| l(vec![l(vec![a(-6)]), a(0), a(1)])).chain(std::iter::once(l(vec![a(-6)]))).collect(), false)
                }
            };
        }
        let want: Vec<usize> = req.nth(3).list().iter().map(|v| v.int().max(0) as usize).collect();
        match self.run_sched(&sc, |k, en| if k < want.len() { want[k] } else { en[0] }) {
            Ok((actual, _, results, _, files)) => {
                let nt = nontrivial(&sc, &actual);
                (sc.to_sx(&actual), self.observe(&sc, &results, &files), nt)
            }
            Err(m) => {
                eprintln!("C20 harness: scenario could not be built: {}", m);
                (req.clone(), sc.ops.iter().map(|_| l(vec![l(vec![a(-6)]), a(0), a(1)])).chain(std::iter::once(l(vec![a(-6)]))).collect(), false)
            }
        }
    }
}

// ------------------------------------------------------------------ parallel adaptors

const CK_MOD: u64 = 1_000_003;

fn wanted(h: usize) -> bool {
    h % 211 == 5 && h > 1100
}

/// the positional consumers, sequentially, over a list of handles
fn seq_consumers(v: &[usize]) -> Vec<i64> {
    let ck = |a: u64, b: u64, v: &[usize]| -> u64 { v.iter().enumerate().map(|(i, h)| (i as u64 + a) * (*h as u64 + b)).sum::<u64>() % CK_MOD };
    let third: Vec<usize> = v.iter().copied().filter(|h| h % 3 == 0).collect();
    vec![
        v.len() as i64,
        ck(1, 1, v) as i64,
        ck(2, 3, v) as i64,
        v.iter().copied().find(|h| wanted(*h)).map(|h| h as i64).unwrap_or(-1),
        ck(1, 1, &third) as i64,
    ]
}

/// the same consumers on what `.parallel()` returns (an indexed rayon iterator), on the current pool
fn par_consumers<'a>(mk: &(dyn Fn() -> ParIter<'a> + Sync)) -> Vec<i64> {
    use rayon::prelude::*;
    let collected: Vec<usize> = mk().map(|x| x.handle().as_usize()).collect();
    let collect_ck = collected.iter().enumerate().map(|(i, h)| (i as u64 + 1) * (*h as u64 + 1)).sum::<u64>() % CK_MOD;
    let fold_ck = mk()
        .enumerate()
        .fold(|| 0u64, |acc, (i, x)| acc + (i as u64 + 2) * (x.handle().as_usize() as u64 + 3))
        .sum::<u64>()
        % CK_MOD;
    let first = mk().find_first(|x| wanted(x.handle().as_usize())).map(|x| x.handle().as_usize() as i64).unwrap_or(-1);
    let third: Vec<usize> = mk().filter(|x| x.handle().as_usize() % 3 == 0).map(|x| x.handle().as_usize()).collect();
    let filter_ck = third.iter().enumerate().map(|(i, h)| (i as u64 + 1) * (*h as u64 + 1)).sum::<u64>() % CK_MOD;
    // zip with the positions must agree with enumerate
    let zip_ck = mk()
        .zip((0..collected.len()).into_par_iter())
        .map(|(x, i)| (i as u64 + 2) * (x.handle().as_usize() as u64 + 3))
        .sum::<u64>()
        % CK_MOD;
    vec![collected.len() as i64, collect_ck as i64, if zip_ck == fold_ck { fold_ck as i64 } else { -9 }, first, filter_ck as i64]
}

type ParIter<'a> = rayon::vec::IntoIter<ResultItem<'a, Annotation>>;

/// sequential handles per chain, the sequential consumers, the first deviating parallel result per
/// chain (if any), and whether everything ran without a panic
fn parallel_observe<'a>(store: &'a AnnotationStore, workers: usize, reps: usize) -> (Vec<Vec<usize>>, Vec<Vec<i64>>, Vec<Option<Vec<i64>>>, bool) {
    let key = store.dataset("D").and_then(|d| d.key("sound"));
    let seqs: Vec<Vec<usize>> = vec![
        store.annotations().map(|x| x.handle().as_usize()).collect(),
        match &key {
            Some(k) => k.data().filter_value(DataOperator::Equals("tick".into())).annotations().map(|x| x.handle().as_usize()).collect(),
            None => vec![],
        },
        match &key {
            Some(k) => store.annotations().filter_key_value(k, DataOperator::Equals("tock".into())).map(|x| x.handle().as_usize()).collect(),
            None => vec![],
        },
    ];
    let want: Vec<Vec<i64>> = seqs.iter().map(|v| seq_consumers(v)).collect();
    let pool = rayon::ThreadPoolBuilder::new().num_threads(workers).build().expect("rayon pool");
    let mk0 = || -> ParIter<'a> { store.annotations().parallel() };
    let mk1 = || -> ParIter<'a> {
        match &key {
            Some(k) => k.data().filter_value(DataOperator::Equals("tick".into())).annotations().parallel(),
            None => store.annotations().take(0).parallel(),
        }
    };
    let mk2 = || -> ParIter<'a> {
        match &key {
            Some(k) => store.annotations().filter_key_value(k, DataOperator::Equals("tock".into())).parallel(),
            None => store.annotations().take(0).parallel(),
        }
    };
    let mks: Vec<&(dyn Fn() -> ParIter<'a> + Sync)> = vec![&mk0, &mk1, &mk2];
    let deviating: Mutex<Vec<Option<Vec<i64>>>> = Mutex::new(vec![None; 3]);
    let r = guard(|| {
        std::thread::scope(|scope| {
            for _reader in 0..2 {
                let (pool, mks, want, deviating) = (&pool, &mks, &want, &deviating);
                scope.spawn(move || {
                    for _ in 0..reps {
                        for (c, mk) in mks.iter().enumerate() {
                            let got = pool.install(|| par_consumers(*mk));
                            if got != want[c] {
                                let mut d = deviating.lock().unwrap_or_else(|e| e.into_inner());
                                if d[c].is_none() {
                                    d[c] = Some(got);
                                }
                            }
                        }
                    }
                });
            }
        })
    });
    let dev = deviating.lock().unwrap_or_else(|e| e.into_inner()).clone();
    (seqs, want, dev, r.is_some())
}

impl Ctx {
    fn big_store(&self, n: usize) -> std::rc::Rc<AnnotationStore> {
        if let Some(s) = self.big.borrow().get(&n) {
            return s.clone();
        }
        let mut text = String::with_capacity(n * 5);
        for i in 0..n {
            text.push_str(if i % 2 == 0 { "tick " } else { "tock " });
        }
        let mut store = AnnotationStore::default().with_id("big");
        store.add_resource(TextResourceBuilder::new().with_id("R").with_text(text)).expect("resource");
        store.add_dataset(AnnotationDataSetBuilder::new().with_id("D")).expect("dataset");
        for i in 0..n {
            store
                .annotate(
                    AnnotationBuilder::new()
                        .with_target(SelectorBuilder::textselector("R", Offset::simple(i * 5, i * 5 + 4)))
                        .with_data("D", "sound", if i % 2 == 0 { "tick" } else { "tock" }),
                )
                .expect("annotate");
        }
        let rc = std::rc::Rc::new(store);
        self.big.borrow_mut().insert(n, rc.clone());
        rc
    }

    /// (8 n workers reps): positional consumers of chain.parallel() on a pool of `workers` threads,
    /// from two reader threads at once, `reps` times each, against the sequential iterator
    fn exec_parallel(&self, req: &Sx) -> (Sx, Vec<Sx>, bool) {
        let n = (req.nth(1).int().clamp(0, 20_000)) as usize;
        let workers = (req.nth(2).int().clamp(1, 16)) as usize;
        let reps = (req.nth(3).int().clamp(1, 50)) as usize;
        let store_rc = self.big_store(n);
        let (seqs, want, dev, ok) = parallel_observe(&store_rc, workers, reps);
        let obs: Vec<Sx> = (0..3)
            .map(|c| {
                if !ok {
                    return l(vec![a(-1)]);
                }
                match &dev[c] {
                    None => {
                        let mut v: Vec<Sx> = want[c].iter().map(|x| a(*x)).collect();
                        v.push(a(1));
                        l(v)
                    }
                    Some(g) => {
                        let mut v: Vec<Sx> = g.iter().map(|x| a(*x)).collect();
                        v.push(a(0));
                        l(v)
                    }
                }
            })
            .collect();
        let input = l(vec![a(8), a(workers as i64), a(reps as i64), l(seqs.iter().map(|v| l(v.iter().map(|h| a(*h as i64)).collect())).collect())]);
        (input, obs, n > 1100 && workers >= 2)
    }
}

fn nontrivial(sc: &Scen, actual: &[usize]) -> bool {
    // at least two threads took two or more turns each and a stand-off member exists
    let mut cnt = vec![0usize; sc.ops.len()];
    for t in actual {
        cnt[*t] += 1;
    }
    cnt.iter().filter(|c| **c >= 2).count() >= 2 && sc.mem.iter().any(|k| standoff(*k))
}

fn digest_annotations(store: &AnnotationStore) -> String {
    let mut s = String::new();
    for an in store.annotations() {
        s.push_str(an.id().unwrap_or("?"));
        s.push(':');
        for t in an.text() {
            s.push_str(t);
            s.push('|');
        }
        for d in an.data() {
            s.push_str(d.key().id().unwrap_or("?"));
            s.push('=');
            s.push_str(&format!("{}", d.value()));
            s.push(';');
        }
        s.push('\n');
    }
    s
}

fn substore_file_ok(dir: &std::path::Path, i: usize) -> bool {
    match std::fs::read_to_string(dir.join(member_file(i, 7))) {
        Ok(content) => match serde_json::from_str::<serde_json::Value>(&content) {
            Ok(v) => v.get("@type").and_then(|t| t.as_str()) == Some("AnnotationStore") && v.get("annotations").map(|x| x.is_array()).unwrap_or(false),
            Err(_) => false,
        },
        Err(_) => false,
    }
}

fn store_op(store: &AnnotationStore, sc: &Scen) -> Got {
    match store.to_json_string(store.config()) {
        Ok(text) => store_tokens(text, store, sc),
        Err(e) => Got { tokens: vec![-2], text: format!("{:?}", e) },
    }
}

/// the member forms in a store document that a call has just returned (Ok); the sub-stores it
/// refers to must have their files by now: -8 otherwise
fn store_tokens(text: String, store: &AnnotationStore, sc: &Scen) -> Got {
    match Ok::<String, StamError>(text) {
        Ok(text) => match serde_json::from_str::<serde_json::Value>(&text) {
            Ok(v) => {
                let mut tokens = Vec::new();
                let mut idx = 0usize;
                let includes: Vec<String> = match v.get("@include") {
                    Some(serde_json::Value::String(x)) => vec![x.clone()],
                    Some(serde_json::Value::Array(a)) => a.iter().filter_map(|x| x.as_str().map(|y| y.to_string())).collect(),
                    _ => vec![],
                };
                let mut late = false;
                for _ in &includes {
                    tokens.push(2 * idx as i64 + 1);
                    if idx < sc.mem.len() && sc.mem[idx] == 7 && !UNSCHEDULED.with(|u| u.get()) {
                        if let Some(w) = store.config().workdir() {
                            if !substore_file_ok(w, idx) {
                                late = true;
                            }
                        }
                    }
                    idx += 1;
                }
                for field in ["resources", "annotationsets"] {
                    if let Some(arr) = v.get(field).and_then(|x| x.as_array()) {
                        for m in arr {
                            tokens.push(form_of(m, idx));
                            idx += 1;
                        }
                    }
                }
                if late {
                    tokens.push(-8);
                }
                Got { tokens, text }
            }
            Err(_) => Got { tokens: vec![-5], text },
        },
        Err(e) => Got { tokens: vec![-2], text: format!("{:?}", e) },
    }
}

/// the call a thread makes with its shared reference
fn run_op(store: &AnnotationStore, sc: &Scen, op: (u8, usize, u8)) -> Got {
    let (kind, i, variant) = op;
    let one = |r: Result<String, StamError>| -> Got {
        match r {
            Ok(text) => match serde_json::from_str::<serde_json::Value>(&text) {
                Ok(v) => Got { tokens: vec![form_of(&v, i)], text },
                Err(_) => Got { tokens: vec![-5], text },
            },
            Err(e) => Got { tokens: vec![-2], text: format!("{:?}", e) },
        }
    };
    match kind {
        0 => {
            let text = match variant % 4 {
                0 => digest_annotations(store),
                1 => {
                    let mut s = String::new();
                    for r in store.resources() {
                        for m in r.find_text("l") {
                            s.push_str(&format!("{}:{}-{};", r.id().unwrap_or("?"), m.begin(), m.end()));
                        }
                        for a in r.annotations() {
                            s.push_str(a.id().unwrap_or("?"));
                        }
                    }
                    for d in store.datasets() {
                        for k in d.keys() {
                            s.push_str(&format!("{}/{}:{};", d.id().unwrap_or("?"), k.id().unwrap_or("?"), k.data().count()));
                        }
                    }
                    s
                }
                2 => {
                    let mut s = String::new();
                    if let Some(d) = store.datasets().next() {
                        let q = format!("SELECT ANNOTATION ?a WHERE DATA \"{}\" \"k\" = \"v\";", d.id().unwrap_or("?"));
                        match Query::try_from(q.as_str()) {
                            Ok(query) => match store.query(query) {
                                Ok(iter) => {
                                    for results in iter {
                                        for r in results.iter() {
                                            if let QueryResultItem::Annotation(an) = r {
                                                s.push_str(an.id().unwrap_or("?"));
                                                s.push(';');
                                            }
                                        }
                                    }
                                }
                                Err(e) => s.push_str(&format!("query error {:?}", e)),
                            },
                            Err(e) => s.push_str(&format!("parse error {:?}", e)),
                        }
                    }
                    s
                }
                _ => {
                    // the parallel adaptors, driven through rayon, against the sequential iterators
                    use rayon::prelude::*;
                    let par: Vec<String> = store
                        .annotations()
                        .parallel()
                        .map(|x| format!("{}:{}", x.id().unwrap_or("?"), x.text().collect::<Vec<_>>().join("|")))
                        .collect();
                    let seq: Vec<String> = store
                        .annotations()
                        .map(|x| format!("{}:{}", x.id().unwrap_or("?"), x.text().collect::<Vec<_>>().join("|")))
                        .collect();
                    let rpar: Vec<String> = store.resources().parallel().map(|r| format!("{}:{}", r.id().unwrap_or("?"), r.textlen())).collect();
                    let rseq: Vec<String> = store.resources().map(|r| format!("{}:{}", r.id().unwrap_or("?"), r.textlen())).collect();
                    format!("{}:{}:{:?}:{:?}", par == seq, rpar == rseq, par, rpar)
                }
            };
            Got { tokens: vec![], text }
        }
        1 => store_op(store, sc),
        13 => {
            // the public read of the store's own changed flag
            let c = store.changed();
            Got { tokens: vec![], text: format!("{}", c) }
        }
        10 => match store.save() {
            Ok(()) => Got { tokens: vec![], text: String::new() },
            Err(e) => Got { tokens: vec![-2], text: format!("{:?}", e) },
        },
        11 | 12 => {
            // the trait call with a Config whose dataformat is not JSON: refused
            let refusing = Config::default().with_dataformat(if variant % 2 == 0 { DataFormat::CBOR } else { DataFormat::Csv });
            let id = member_id(i);
            let r = if is_resource(sc.mem[i]) {
                match store.resource(id.as_str()) {
                    Some(r) => <TextResource as ToJson>::to_json_string(r.as_ref(), &refusing),
                    None => return Got { tokens: vec![-6], text: String::new() },
                }
            } else {
                match store.dataset(id.as_str()) {
                    Some(d) => <AnnotationDataSet as ToJson>::to_json_string(d.as_ref(), &refusing),
                    None => return Got { tokens: vec![-6], text: String::new() },
                }
            };
            let first = match r {
                Ok(text) => match serde_json::from_str::<serde_json::Value>(&text) {
                    Ok(v) => Got { tokens: vec![form_of(&v, i)], text },
                    Err(_) => Got { tokens: vec![-5], text },
                },
                Err(e) => Got { tokens: vec![-2], text: format!("{:?}", e) },
            };
            if kind == 11 {
                return first;
            }
            let second = store_op(store, sc);
            let mut tokens = first.tokens.clone();
            tokens.push(-7);
            tokens.extend(second.tokens.iter());
            tokens.push(-7);
            Got { tokens, text: format!("{}\n----\n{}", first.text, second.text) }
        }
        8 | 9 => {
            // to_txt_file: 8 = an export under the same file name in another directory,
            // 9 = the resource's own stand-off file (plain-text stand-off resources only)
            let k = sc.mem[i];
            if !is_resource(k) || (kind == 9 && k != 1 && k != 6) {
                return Got { tokens: vec![], text: String::new() };
            }
            let r = match store.resource(member_id(i).as_str()) {
                Some(r) => r,
                None => return Got { tokens: vec![-6], text: String::new() },
            };
            let r: &TextResource = r.as_ref();
            let target = if kind == 9 {
                member_file(i, k)
            } else {
                let name = std::path::Path::new(&member_file(i, k)).file_name().map(|x| x.to_string_lossy().to_string()).unwrap_or_default();
                let own = if k == 0 { format!("m{}.txt", i) } else { name };
                match store.config().workdir() {
                    Some(w) => w.join("export").join(own).to_string_lossy().to_string(),
                    None => format!("export/{}", own),
                }
            };
            match r.to_txt_file(&target) {
                Ok(()) => Got { tokens: vec![], text: String::new() },
                Err(e) => Got { tokens: vec![-2], text: format!("{:?}", e).replace(|c: char| c.is_ascii_digit(), "") },
            }
        }
        6 => {
            // the store written to a file of this thread's own (ToJson::to_json_file), read back
            let name = format!("out-{:?}.json", std::thread::current().id()).replace(['(', ')'], "");
            let path = match store.config().workdir() {
                Some(w) => w.join(&name),
                None => std::path::PathBuf::from(&name),
            };
            let export_config = match store.config().workdir() {
                Some(w) => Config::default().with_workdir(w.to_string_lossy().to_string()),
                None => Config::default(),
            };
            let r = store.to_json_file(&name, &export_config);
            let got = match r {
                Ok(()) => match std::fs::read_to_string(&path) {
                    Ok(text) => store_tokens(text, store, sc),
                    Err(e) => Got { tokens: vec![-2], text: format!("{:?}", e) },
                },
                Err(e) => Got { tokens: vec![-2], text: format!("{:?}", e) },
            };
            let _ = std::fs::remove_file(&path);
            got
        }
        5 | 7 => {
            // two calls one after the other on this thread
            let first = if kind == 5 { run_op(store, sc, (2, i, variant)) } else { store_op(store, sc) };
            let second = store_op(store, sc);
            let mut tokens = first.tokens.clone();
            tokens.push(-7);
            tokens.extend(second.tokens.iter());
            tokens.push(-7);
            Got { tokens, text: format!("{}\n----\n{}", first.text, second.text) }
        }
        _ => {
            let id = member_id(i);
            if is_resource(sc.mem[i]) {
                let r = match store.resource(id.as_str()) {
                    Some(r) => r,
                    None => return Got { tokens: vec![-6], text: String::new() },
                };
                let r: &TextResource = r.as_ref();
                match kind {
                    2 => one(<TextResource as ToJson>::to_json_string(r, store.config())),
                    3 => one(r.to_json_string()),
                    _ => one(<TextResource as ToJson>::to_json_string(r, &Config::default())),
                }
            } else {
                let d = match store.dataset(id.as_str()) {
                    Some(d) => d,
                    None => return Got { tokens: vec![-6], text: String::new() },
                };
                let d: &AnnotationDataSet = d.as_ref();
                match kind {
                    2 => one(<AnnotationDataSet as ToJson>::to_json_string(d, store.config())),
                    3 => one(d.to_json_string()),
                    _ => one(<AnnotationDataSet as ToJson>::to_json_string(d, &Config::default())),
                }
            }
        }
    }
}

// ------------------------------------------------------------------ generation

struct Explore {
    schedules: u64,
    complete: bool,
}

/// every schedule of the scenario (depth-first, by re-execution), at most `cap`
fn explore(ctx: &Ctx, out: &mut Out, sc: &Scen, cap: u64, key: &str) -> Explore {
    let mut prefix: Vec<usize> = Vec::new();
    let mut n = 0u64;
    loop {
        let p = prefix.clone();
        let (actual, enabled, results, sites, files) = match ctx.run_sched(sc, |k, en| if k < p.len() { p[k] } else { en[0] }) {
            Ok(x) => x,
            Err(m) => panic!("C20 harness: scenario {:?} could not be built: {}", sc, m),
        };
        let input = sc.to_sx(&actual);
        out.case(&input, &ctx.observe(sc, &results, &files), nontrivial(sc, &actual), &input);
        out.count(key);
        for s in sites.iter().flatten() {
            out.count(&format!("site_{}", s));
        }
        n += 1;
        let mut next = None;
        let mut k = actual.len();
        while k > 0 {
            k -= 1;
            if let Some(t) = enabled[k].iter().find(|t| **t > actual[k]) {
                next = Some((k, *t));
                break;
            }
        }
        match next {
            None => return Explore { schedules: n, complete: true },
            Some((k, t)) => {
                prefix = actual[..k].to_vec();
                prefix.push(t);
            }
        }
        if n >= cap {
            return Explore { schedules: n, complete: false };
        }
    }
}

fn sample(ctx: &Ctx, out: &mut Out, sc: &Scen, rng: &mut Rng, count: usize, key: &str) {
    for _ in 0..count {
        let mut r = rng.fork();
        let (actual, _, results, _, files) = match ctx.run_sched(sc, |_, en| en[r.below(en.len())]) {
            Ok(x) => x,
            Err(m) => panic!("C20 harness: scenario {:?} could not be built: {}", sc, m),
        };
        let input = sc.to_sx(&actual);
        out.case(&input, &ctx.observe(sc, &results, &files), nontrivial(sc, &actual), &input);
        out.count(key);
    }
}

/// the calls available on a store with these members
fn op_pool(mem: &[u8], pure_variants: &[u8]) -> Vec<(u8, usize, u8)> {
    let mut v: Vec<(u8, usize, u8)> = vec![(1, 0, 0)];
    for i in 0..mem.len() {
        for k in 2..=4u8 {
            v.push((k, i, 0));
        }
    }
    for p in pure_variants {
        v.push((0, 0, *p));
    }
    v
}

fn self_check(ctx: &Ctx) {
    // the set-up really produces the changed flags the scenario asks for
    for k in [1u8, 2, 4] {
        for c in [false, true] {
            let sc = Scen { mem: vec![k], chg: vec![c], ops: vec![(1, 0, 0)], nkeys: 1 };
            match ctx.flushes(&sc, 0) {
                Ok(f) if f == c => {}
                other => panic!("C20 harness self-check: member kind {} with changed={} -> stand-off file rewritten: {:?}", k, c, other),
            }
        }
    }
}

pub fn generate(out: &mut Out, tier: &str, seed: u64) {
    let thorough = tier == "thorough";
    let ctx = Ctx::new();
    self_check(&ctx);
    let mut rng = Rng::new(seed);
    let mut incomplete = 0u64;

    // A. every store with one member, both flags; every unordered pair of calls: all schedules
    //    (the largest pair has 3642)
    let mut one: Vec<(Vec<u8>, Vec<bool>)> = Vec::new();
    for k in 0..=4u8 {
        one.push((vec![k], vec![false]));
        if standoff(k) {
            one.push((vec![k], vec![true]));
        }
    }
    let cap: u64 = 4_000;
    for (mem, chg) in &one {
        let pool = op_pool(mem, &[0, 1, 2, 3]);
        for x in 0..pool.len() {
            for y in x..pool.len() {
                if pool[x].0 == 0 && pool[y].0 == 0 && pool[x].2 != pool[y].2 {
                    continue;
                }
                let sc = Scen { mem: mem.clone(), chg: chg.clone(), ops: vec![pool[x], pool[y]], nkeys: 1 };
                out.count_n("scenarios_two_threads", 1);
                let e = explore(&ctx, out, &sc, cap, "two_threads_all_schedules");
                if !e.complete {
                    incomplete += 1;
                    sample(&ctx, out, &sc, &mut rng, 200, "two_threads_random_schedule");
                }
            }
        }
    }
    // A3. two calls one after the other on one thread (member, then store), next to every call:
    //    all schedules up to a cap, random schedules beyond
    for (mem, chg) in &one {
        let pool = op_pool(mem, &[0]);
        let mut partners = pool.clone();
        partners.push((5, 0, 0));
        partners.push((6, 0, 0));
        for first in [(5u8, 0usize, 0u8), (6, 0, 0)] {
            for y in &partners {
                if first.0 == 6 && y.0 == 5 {
                    continue;
                }
                let sc = Scen { mem: mem.clone(), chg: chg.clone(), ops: vec![first, *y], nkeys: 1 };
                out.count_n("scenarios_two_threads", 1);
                let e = explore(&ctx, out, &sc, if thorough { 1_500 } else { 100 }, "two_threads_all_schedules");
                if !e.complete {
                    out.count_n("scenarios_capped", 1);
                    sample(&ctx, out, &sc, &mut rng, if thorough { 100 } else { 25 }, "two_threads_random_schedule");
                }
            }
        }
    }

    // A4. a stand-off file that cannot be written: the call fails, every time
    for (mem, chg) in [(vec![5u8], vec![true]), (vec![5], vec![false]), (vec![1, 5], vec![true, true]), (vec![4, 5], vec![true, true]), (vec![5, 4], vec![true, false])] {
        let b = mem.iter().position(|k| *k == 5).unwrap();
        let pool: Vec<(u8, usize, u8)> = vec![(1, 0, 0), (7, 0, 0), (2, b, 0), (3, b, 0), (5, b, 0), (0, 0, 0)];
        for x in 0..pool.len() {
            for y in x..pool.len() {
                let sc = Scen { mem: mem.clone(), chg: chg.clone(), ops: vec![pool[x], pool[y]], nkeys: 1 };
                out.count_n("scenarios_failing_write", 1);
                let e = explore(&ctx, out, &sc, if thorough { 1_500 } else { 80 }, "two_threads_all_schedules");
                if !e.complete {
                    out.count_n("scenarios_capped", 1);
                    sample(&ctx, out, &sc, &mut rng, if thorough { 100 } else { 20 }, "two_threads_random_schedule");
                }
            }
        }
    }

    // A2. one resource and one dataset, every combination of flags.
    //    quick: all schedules for {store, ToJson(dataset)} x {store, ToJson(dataset)} when they are
    //    at most 800, random schedules otherwise; thorough: all schedules up to the cap
    for (r, d) in [(0u8, 4u8), (1, 4), (2, 3), (1, 3), (2, 4)] {
        for cr in [false, true] {
            for cd in [false, true] {
                if (cr && !standoff(r)) || (cd && !standoff(d)) {
                    continue;
                }
                let mem = vec![r, d];
                let chg = vec![cr, cd];
                let pool = op_pool(&mem, &[0]);
                for x in 0..pool.len() {
                    for y in x..pool.len() {
                        let sc = Scen { mem: mem.clone(), chg: chg.clone(), ops: vec![pool[x], pool[y]], nkeys: 1 };
                        out.count_n("scenarios_two_threads", 1);
                        let core = |o: (u8, usize, u8)| o.0 == 1 || (o.0 == 2 && o.1 == 1);
                        if core(pool[x]) && core(pool[y]) {
                            let e = explore(&ctx, out, &sc, if thorough { 4_000 } else { 800 }, "two_threads_all_schedules");
                            if !e.complete {
                                out.count_n("scenarios_capped", 1);
                                sample(&ctx, out, &sc, &mut rng, 100, "two_threads_random_schedule");
                            }
                        } else {
                            sample(&ctx, out, &sc, &mut rng, if thorough { 100 } else { 10 }, "two_threads_random_schedule");
                        }
                    }
                }
            }
        }
    }

    // B. three threads on one-member stores: random schedules (quick), all schedules up to the
    //    cap (thorough)
    let three_stores: Vec<(Vec<u8>, Vec<bool>)> = vec![(vec![4], vec![false]), (vec![4], vec![true]), (vec![2], vec![true]), (vec![1], vec![true])];
    for (mem, chg) in &three_stores {
        let pool: Vec<(u8, usize, u8)> = vec![(1, 0, 0), (2, 0, 0), (3, 0, 0), (0, 0, 0)];
        for x in 0..pool.len() {
            for y in x..pool.len() {
                for z in y..pool.len() {
                    let sc = Scen { mem: mem.clone(), chg: chg.clone(), ops: vec![pool[x], pool[y], pool[z]], nkeys: 1 };
                    out.count_n("scenarios_three_threads", 1);
                    if thorough {
                        let e = explore(&ctx, out, &sc, 1_000, "three_threads_all_schedules");
                        if !e.complete {
                            out.count_n("scenarios_three_capped", 1);
                            sample(&ctx, out, &sc, &mut rng, 300, "three_threads_random_schedule");
                        }
                    } else {
                        sample(&ctx, out, &sc, &mut rng, 20, "three_threads_random_schedule");
                    }
                }
            }
        }
    }

    // C. larger stores, random calls, random schedules
    let nrand = if thorough { 2000 } else { 200 };
    for _ in 0..nrand {
        let nres = rng.below(3);
        let nset = rng.below(3);
        if nres + nset == 0 {
            continue;
        }
        let mut mem: Vec<u8> = Vec::new();
        for _ in 0..nres {
            mem.push(rng.below(3) as u8);
        }
        for _ in 0..nset {
            mem.push(3 + rng.below(2) as u8);
        }
        let chg: Vec<bool> = mem.iter().map(|k| standoff(*k) && rng.chance(1, 2)).collect();
        let pool = op_pool(&mem, &[0, 1, 2, 3]);
        let nthreads = 2 + rng.below(2);
        let ops: Vec<(u8, usize, u8)> = (0..nthreads).map(|_| if rng.chance(1, 6) { (5, rng.below(mem.len()), 0) } else if rng.chance(1, 6) { (6, 0, 0) } else { *rng.pick(&pool) }).collect();
        let sc = Scen { mem, chg, ops, nkeys: 1 };
        sample(&ctx, out, &sc, &mut rng, if thorough { 25 } else { 12 }, "larger_store_random_schedule");
        out.count_n("scenarios_random", 1);
    }
    // D. free runs: the same calls on threads started together without the scheduler, so that the
    //    operating system pre-empts them anywhere (no schedule to replay; every outcome must be solo)
    let nfree = if thorough { 4000 } else { 600 };
    for n in 0..nfree {
        let mem: Vec<u8> = match n % 4 {
            0 => vec![4],
            1 => vec![1, 4],
            2 => vec![2, 4, 4],
            _ => vec![0, 1, 2, 3, 4],
        };
        let chg: Vec<bool> = mem.iter().map(|k| standoff(*k) && rng.chance(2, 3)).collect();
        let pool = op_pool(&mem, &[0, 1, 2, 3]);
        let nthreads = 2 + rng.below(3);
        let ops: Vec<(u8, usize, u8)> = (0..nthreads).map(|_| if rng.chance(1, 2) { (1, 0, 0) } else if rng.chance(1, 5) { (5, rng.below(mem.len()), 0) } else { *rng.pick(&pool) }).collect();
        let sc = Scen { mem, chg, ops, nkeys: 1 };
        let req = sc.to_sx_free();
        let (i, o, nt) = ctx.exec(&req);
        out.case(&i, &o, nt, &req);
        out.count("free_run");
    }

    // E. the parallel adaptors: positional consumers of chain.parallel() on pools of 2..8 workers
    //    over stores with thousands of annotations, against the sequential iterator
    let sizes: Vec<usize> = if thorough { vec![1030, 5000, 12000] } else { vec![1030, 4000] };
    for n in sizes {
        for workers in 2..=8usize {
            let req = l(vec![a(8), a(n as i64), a(workers as i64), a(if thorough { 12 } else { 5 })]);
            let (i, o, nt) = ctx.exec(&req);
            out.case(&i, &o, nt, &req);
            out.count("parallel_adaptors");
        }
    }
    // below the size where anything could be drained on the pool, and a single worker
    for (n, workers) in [(0usize, 2usize), (7, 3), (1024, 4), (3000, 1)] {
        let req = l(vec![a(8), a(n as i64), a(workers as i64), a(2)]);
        let (i, o, nt) = ctx.exec(&req);
        out.case(&i, &o, nt, &req);
        out.count("parallel_adaptors");
    }

    // G. the changed flag as shared state: exports (to_txt_file elsewhere under the same name), the
    //    legitimate flush through to_txt_file, and stand-off files that cannot be written, next to
    //    serialisations; pending content is not on disk, so a call that returns Ok with @include must
    //    have written it, and a failing write must fail for every reader
    for (mem, chg) in [
        (vec![1u8], vec![true]),
        (vec![1], vec![false]),
        (vec![6], vec![true]),
        (vec![2], vec![true]),
        (vec![0], vec![false]),
        (vec![1, 4], vec![true, true]),
        (vec![6, 4], vec![true, false]),
        (vec![1, 6], vec![true, true]),
    ] {
        let pool: Vec<(u8, usize, u8)> = vec![(8, 0, 0), (9, 0, 0), (1, 0, 0), (3, 0, 0), (2, 0, 0), (7, 0, 0)];
        for x in 0..pool.len() {
            for y in x..pool.len() {
                if pool[x].0 != 8 && pool[x].0 != 9 && !mem.contains(&6) {
                    continue;
                }
                let sc = Scen { mem: mem.clone(), chg: chg.clone(), ops: vec![pool[x], pool[y]], nkeys: 1 };
                out.count_n("scenarios_changed_flag", 1);
                let e = explore(&ctx, out, &sc, if thorough { 1_500 } else { 60 }, "two_threads_all_schedules");
                if !e.complete {
                    out.count_n("scenarios_capped", 1);
                    sample(&ctx, out, &sc, &mut rng, if thorough { 100 } else { 15 }, "two_threads_random_schedule");
                }
            }
        }
        // three readers: export, failing or flushing serialisation, another serialisation
        for ops in [vec![(8u8, 0usize, 0u8), (1, 0, 0), (3, 0, 0)], vec![(1, 0, 0), (3, 0, 0), (7, 0, 0)], vec![(9, 0, 0), (8, 0, 0), (1, 0, 0)]] {
            let sc = Scen { mem: mem.clone(), chg: chg.clone(), ops, nkeys: 1 };
            sample(&ctx, out, &sc, &mut rng, if thorough { 150 } else { 25 }, "three_threads_random_schedule");
            out.count_n("scenarios_changed_flag", 1);
        }
    }

    // H. refused calls (trait call with a non-JSON Config: Err, and nothing may stay behind on the
    //    thread) and CBOR-format stores (save() writes one binary file and must leave the stand-off
    //    state alone)
    for (mem, chg) in [(vec![1u8, 4u8], vec![true, true]), (vec![1, 4], vec![false, false]), (vec![4], vec![true]), (vec![2], vec![true])] {
        let last = mem.len() - 1;
        let refused: Vec<(u8, usize, u8)> = vec![(11, last, 0), (12, last, 0), (12, 0, 1)];
        let partners: Vec<(u8, usize, u8)> = vec![(1, 0, 0), (3, 0, 0), (2, last, 0), (7, 0, 0), (12, last, 0), (11, 0, 1)];
        for x in &refused {
            for y in &partners {
                let sc = Scen { mem: mem.clone(), chg: chg.clone(), ops: vec![*x, *y], nkeys: 1 };
                out.count_n("scenarios_refused_or_cbor", 1);
                let e = explore(&ctx, out, &sc, if thorough { 1_500 } else { 50 }, "two_threads_all_schedules");
                if !e.complete {
                    sample(&ctx, out, &sc, &mut rng, if thorough { 100 } else { 15 }, "two_threads_random_schedule");
                }
            }
        }
        // CBOR-format store: a reader saves it, the others serialise members / export the store as JSON
        let others: Vec<(u8, usize, u8)> = vec![(3, 0, 0), (3, last, 0), (6, 0, 0), (10, 0, 0), (11, last, 0), (8, 0, 0), (0, 0, 0)];
        for y in &others {
            let sc = Scen { mem: mem.clone(), chg: chg.clone(), ops: vec![(10, 0, 0), *y], nkeys: 1 };
            out.count_n("scenarios_refused_or_cbor", 1);
            let e = explore(&ctx, out, &sc, if thorough { 1_500 } else { 50 }, "two_threads_all_schedules");
            if !e.complete {
                sample(&ctx, out, &sc, &mut rng, if thorough { 100 } else { 15 }, "two_threads_random_schedule");
            }
        }
        for ops in [vec![(10u8, 0usize, 0u8), (3, 0, 0), (6, 0, 0)], vec![(10, 0, 0), (3, last, 0), (3, 0, 0)]] {
            let sc = Scen { mem: mem.clone(), chg: chg.clone(), ops, nkeys: 1 };
            sample(&ctx, out, &sc, &mut rng, if thorough { 150 } else { 25 }, "three_threads_random_schedule");
            out.count_n("scenarios_refused_or_cbor", 1);
        }
    }
    // refused calls as jobs on a shared pool next to serialisations (1-3 workers: the same worker runs both)
    for workers in 1..=3i64 {
        for how in 0..=1i64 {
            let sc = Scen { mem: vec![1, 4], chg: vec![false, false], ops: vec![(11, 1, 0), (1, 0, 0), (3, 0, 0)], nkeys: 3 };
            let mut v = match sc.to_sx(&[]) {
                Sx::L(v) => v,
                x => vec![x],
            };
            v.extend(vec![a(2), a(3), a(workers), a(if thorough { 600 } else { 150 }), a(how)]);
            let req = l(v);
            let (i, o, nt) = ctx.exec(&req);
            out.case(&i, &o, nt, &req);
            out.count("shared_rayon_pool");
        }
    }

    // I. stores with sub-stores: the store serialisation writes "@include" and the sub-store files;
    //    when a call has returned Ok, the sub-store files it refers to are there (checked per call)
    for (mem, chg) in [(vec![7u8], vec![false]), (vec![7, 0, 3], vec![false, false, false]), (vec![7, 1, 4], vec![false, true, true]), (vec![7, 7, 4], vec![false, false, false])] {
        let pool: Vec<(u8, usize, u8)> = vec![(1, 0, 0), (7, 0, 0), (6, 0, 0), (13, 0, 0), (3, mem.len() - 1, 0), (0, 0, 0)];
        for x in 0..3 {
            for y in x..pool.len() {
                if pool[y].0 == 3 && mem[pool[y].1] == 7 {
                    continue;
                }
                let sc = Scen { mem: mem.clone(), chg: chg.clone(), ops: vec![pool[x], pool[y]], nkeys: 1 };
                out.count_n("scenarios_substores", 1);
                let e = explore(&ctx, out, &sc, if thorough { 1_500 } else { 80 }, "two_threads_all_schedules");
                if !e.complete {
                    sample(&ctx, out, &sc, &mut rng, if thorough { 100 } else { 15 }, "two_threads_random_schedule");
                }
            }
        }
        for ops in [vec![(1u8, 0usize, 0u8), (1, 0, 0), (13, 0, 0)], vec![(1, 0, 0), (6, 0, 0), (7, 0, 0)]] {
            let sc = Scen { mem: mem.clone(), chg: chg.clone(), ops, nkeys: 1 };
            sample(&ctx, out, &sc, &mut rng, if thorough { 150 } else { 25 }, "three_threads_random_schedule");
            out.count_n("scenarios_substores", 1);
            // and without the scheduler
            for _ in 0..(if thorough { 60 } else { 15 }) {
                let req = sc.to_sx_free();
                let (i, o, nt) = ctx.exec(&req);
                out.case(&i, &o, nt, &req);
                out.count("free_run");
            }
        }
    }

    // F. readers whose serialisations run as jobs on ONE shared rayon pool: a worker that waits
    //    inside one call may run another reader's whole call in the meantime (work stealing), so
    //    nothing that belongs to one logical call may live in the worker thread across such a wait
    let rounds = if thorough { 1500 } else { 400 };
    let mut f = 0usize;
    for nkeys in [2usize, 3, 8, 24, 100] {
        for readers in 2..=4usize {
            for how in 0..=1u8 {
                f += 1;
                if !thorough && f % 2 == 0 && nkeys != 24 {
                    continue;
                }
                // stand-off plain-text resource (0), stand-off dataset (1) [+ a second stand-off dataset]
                let mem: Vec<u8> = if readers == 4 { vec![1, 4, 4] } else { vec![1, 4] };
                let chg: Vec<bool> = mem.iter().map(|_| false).collect();
                let mut ops: Vec<(u8, usize, u8)> = vec![(2, 1, 0)];
                for r in 1..readers {
                    ops.push(match (r + f) % 3 {
                        0 => (1, 0, 0),
                        1 => (3, 0, 0),
                        _ => (1, 0, 0),
                    });
                }
                if readers >= 3 {
                    ops[2] = (3, 1, 0);
                }
                let sc = Scen { mem, chg, ops, nkeys };
                let mut v = match sc.to_sx(&[]) {
                    Sx::L(v) => v,
                    x => vec![x],
                };
                v.extend(vec![a(2), a(nkeys as i64), a(2 + (f % 5) as i64), a(rounds as i64), a(how as i64)]);
                let req = l(v);
                let (i, o, nt) = ctx.exec(&req);
                out.case(&i, &o, nt, &req);
                out.count("shared_rayon_pool");
            }
        }
    }

    if incomplete > 0 {
        // the pool announced as exhaustive in RULE was not enumerated completely: the evidence
        // must not say it was
        panic!("C20 harness: {} scenario(s) of the exhaustive pool exceeded the schedule cap", incomplete);
    }
}

pub const RULE: &str = "Deterministic scheduler over real threads holding &AnnotationStore (blocked at the stam_verif yield points before every access to the serialisation mode and the changed flags; one thread runs at a time); every execution rebuilds the store and its stand-off files under .cache/work/c20/. A (exhaustive, both tiers): for every store with one member (inline / plain-text stand-off / .json stand-off resource, inline / stand-off dataset; changed flag clear and set: 8 stores) every unordered pair of calls out of {store.to_json_string, ToJson::to_json_string(member, store config), inherent member.to_json_string(), ToJson::to_json_string(member, unrelated Config), pure readers: annotation iteration, find_text + reverse lookups, query, .parallel() through rayon}: ALL schedules, enumerated depth-first by re-execution (the generator fails if a pair exceeds the cap). A3: two calls on one thread (ToJson::to_json_string(member) followed by store.to_json_string), and store.to_json_file into a file of the thread's own (read back), each next to every other call on the one-member stores: all schedules up to 100 (thorough 1500), 25 (100) random ones beyond. A4: stores with a stand-off dataset whose file cannot be written (5 stores), pairs out of {store.to_json_string, store.to_json_string twice on one thread, the member calls, a pure reader}: all schedules up to 80 (thorough 1500), 20 (100) random beyond; every call that has to rewrite the file must return Err every time. A2: stores with one resource and one dataset (5 kind combinations x all flag combinations): all schedules up to 800 (thorough 4000), 100 random ones beyond, for pairs of {store serialisation, ToJson(dataset)}; 10 (thorough 100) random schedules for the other pairs. B: three threads on one-member stores: 20 random schedules per triple (quick), all schedules up to 1000 + 300 random beyond (thorough). C: random stores of up to 2+2 members with 2-3 random calls under random schedules. D: free runs - 2-4 threads started together WITHOUT the scheduler (real pre-emption) on stores of 1-5 members. E: the parallel adaptors: stores with 1030 and 4000 (thorough: 1030, 5000, 12000) annotations, rayon pools of 2..8 workers, two reader threads at once, 5 (12) repetitions each, three iterator chains (all annotations; data-filtered via the key; annotations().filter_key_value): len, collect, enumerate/zip fold, find_first, filter+collect of chain.parallel() against the sequential iterator, order included. G: the changed flag as shared state: stores with a pending plain-text / .json stand-off resource (its content NOT on disk), an unwritable plain-text stand-off resource (kind 6), with datasets: resource.to_txt_file(<another directory>/<same name>) (export), resource.to_txt_file(<own stand-off file>), store serialisation (once, twice), member serialisations in pairs (all schedules up to 60, thorough 1500) and triples (random schedules): a call that returned Ok with a member as @include must have left the member's content in its stand-off file, a failing stand-off write fails for every reader. H: refused calls (ToJson::to_json_string(member, Config with CBOR/CSV dataformat): Err) alone and followed by store.to_json_string on the same thread, next to serialisations (pairs, all schedules up to 50 / 1500), also as jobs on a shared pool of 1-3 workers; CBOR-format stores with pending stand-off members: store.save() next to inherent member serialisations, the JSON export store.to_json_file, exports (pairs and triples): results as alone, every Ok @include has its file. I: stores with one or two sub-stores (alone, with inline members, with pending stand-off members): pairs out of {store.to_json_string once / twice, store.to_json_file, store.changed(), a member serialisation, a pure reader} (all schedules up to 80 / 1500; the hooks have a yield site where a sub-store file is about to be written), triples under random schedules and without the scheduler: every call that returns Ok with a sub-store as @include must find that sub-store's file written at that moment. F: 2-4 readers whose calls (ToJson::to_json_string(dataset), store.to_json_string, inherent resource/dataset to_json_string) run as jobs on ONE shared rayon pool of 2-6 workers (install() from ordinary threads, or all spawned into one pool scope) over stores with a stand-off resource and stand-off datasets of 2, 3, 8, 24, 100 keys, 400 (thorough 1500) rounds per reader, every returned string compared with the solo string. Per thread: the member forms in the string it obtained and equality of the whole string with the string the same call returns alone on an identical store, compared with the specified solo result and with the model's prediction for the executed schedule; per run: whether every stand-off file still holds its member's content. Non-trivial: a stand-off member exists and at least two threads were scheduled twice or more. distinct = distinct (scenario, schedule) lines.";

pub const EXHAUSTIVE: bool = true;
