// GENERATED
#[path = "c04.rs"]
pub mod c04;
#[path = "c06.rs"]
pub mod c06;
#[path = "c08.rs"]
pub mod c08;
#[path = "c12.rs"]
pub mod c12;
#[path = "c13.rs"]
pub mod c13;
