//! C08 layers 2/3: queries on the real library, along every route the property names:
//! STAMQL text (Query::parse + store.query), the Query/Constraint constructors, the iterator
//! API, and query_mut for ADD / DELETE next to the equivalent direct calls.
//! Encoding of queries: see coq/Run/C08.v.
use crate::out::guard;
use crate::rng::Rng;
use crate::storegen::{aid, kid, observe, rid, sid, value};
use crate::sx::{a, l, nats, Sx};
use stam::*;
use std::collections::BTreeSet;

#[derive(Clone, Debug)]
pub enum VRef {
    Id(i64),
    Var(i64),
}

#[derive(Clone, Debug)]
pub enum Cst {
    Id(i64),
    Ann(VRef, bool),
    Res(VRef, bool),
    Set(VRef, bool),
    Key(i64, i64, bool),
    KeyVal(i64, i64, Sx, bool),
    Val(Sx),
    DataVar(i64, bool),
    KeyVar(i64, bool),
    TextVar(i64),
    Rel(i64, i64),
    Text(Vec<i64>, bool),
    Union(Vec<Cst>),
}

#[derive(Clone, Debug)]
pub struct Q {
    pub name: i64,
    pub rt: i64,
    pub cs: Vec<Cst>,
    pub lim: Option<(i64, i64)>,
    pub opt: bool,
    pub sub: Option<Box<Q>>,
}

// ------------------------------------------------------------------------------------------
// encoding

fn vref_sx(r: &VRef) -> Sx {
    match r {
        VRef::Id(t) => l(vec![a(0), a(*t)]),
        VRef::Var(v) => l(vec![a(1), a(*v)]),
    }
}
fn vref_of(x: &Sx) -> VRef {
    if x.nth(0).int() == 0 {
        VRef::Id(x.nth(1).int())
    } else {
        VRef::Var(x.nth(1).int())
    }
}
fn bsx(x: bool) -> Sx {
    a(x as i64)
}

pub fn cst_sx(c: &Cst) -> Sx {
    match c {
        Cst::Id(t) => l(vec![a(0), a(*t)]),
        Cst::Ann(r, m) => l(vec![a(1), vref_sx(r), bsx(*m)]),
        Cst::Res(r, m) => l(vec![a(2), vref_sx(r), bsx(*m)]),
        Cst::Set(r, m) => l(vec![a(3), vref_sx(r), bsx(*m)]),
        Cst::Key(d, k, m) => l(vec![a(4), a(*d), a(*k), bsx(*m)]),
        Cst::KeyVal(d, k, o, m) => l(vec![a(5), a(*d), a(*k), o.clone(), bsx(*m)]),
        Cst::Val(o) => l(vec![a(6), o.clone()]),
        Cst::DataVar(v, m) => l(vec![a(7), a(*v), bsx(*m)]),
        Cst::KeyVar(v, m) => l(vec![a(8), a(*v), bsx(*m)]),
        Cst::TextVar(v) => l(vec![a(9), a(*v)]),
        Cst::Rel(v, k) => l(vec![a(10), a(*v), a(*k)]),
        Cst::Text(t, n) => l(vec![a(11), l(t.iter().map(|c| a(*c)).collect()), bsx(*n)]),
        Cst::Union(cs) => {
            let mut v = vec![a(12)];
            v.extend(cs.iter().map(cst_sx));
            l(v)
        }
    }
}

pub fn cst_of(x: &Sx) -> Cst {
    match x.nth(0).int() {
        0 => Cst::Id(x.nth(1).int()),
        1 => Cst::Ann(vref_of(x.nth(1)), x.nth(2).int() != 0),
        2 => Cst::Res(vref_of(x.nth(1)), x.nth(2).int() != 0),
        3 => Cst::Set(vref_of(x.nth(1)), x.nth(2).int() != 0),
        4 => Cst::Key(x.nth(1).int(), x.nth(2).int(), x.nth(3).int() != 0),
        5 => Cst::KeyVal(x.nth(1).int(), x.nth(2).int(), x.nth(3).clone(), x.nth(4).int() != 0),
        6 => Cst::Val(x.nth(1).clone()),
        7 => Cst::DataVar(x.nth(1).int(), x.nth(2).int() != 0),
        8 => Cst::KeyVar(x.nth(1).int(), x.nth(2).int() != 0),
        9 => Cst::TextVar(x.nth(1).int()),
        10 => Cst::Rel(x.nth(1).int(), x.nth(2).int()),
        11 => Cst::Text(x.nth(1).list().iter().map(|c| c.int()).collect(), x.nth(2).int() != 0),
        _ => Cst::Union(x.list()[1..].iter().map(cst_of).collect()),
    }
}

pub fn q_sx(q: &Q) -> Sx {
    l(vec![
        a(q.name),
        a(q.rt),
        l(q.cs.iter().map(cst_sx).collect()),
        match q.lim {
            Some((b, e)) => l(vec![a(b), a(e)]),
            None => l(vec![]),
        },
        bsx(q.opt),
        match &q.sub {
            Some(s) => l(vec![q_sx(s)]),
            None => l(vec![]),
        },
    ])
}

pub fn q_of(x: &Sx) -> Q {
    Q {
        name: x.nth(0).int(),
        rt: x.nth(1).int(),
        cs: x.nth(2).list().iter().map(cst_of).collect(),
        lim: if x.nth(3).list().len() == 2 { Some((x.nth(3).nth(0).int(), x.nth(3).nth(1).int())) } else { None },
        opt: x.nth(4).int() != 0,
        sub: if x.nth(5).list().len() == 1 { Some(Box::new(q_of(x.nth(5).nth(0)))) } else { None },
    }
}

// ------------------------------------------------------------------------------------------
// STAMQL text

fn vname(v: i64) -> String {
    format!("v{}", v)
}
fn string_of(cps: &[Sx]) -> String {
    cps.iter().filter_map(|c| char::from_u32(c.int() as u32)).collect()
}
fn fix(z: i64) -> String {
    format!("{:.3}", z as f64 / 1000.0)
}

/// a data operator as "op value"; None when STAMQL has no syntax for it
pub fn dop_text(x: &Sx) -> Option<String> {
    let z = x.nth(1).int();
    let leaf = |x: &Sx| -> Option<String> {
        match x.nth(0).int() {
            0 => Some("null".to_string()),
            1 => Some("any".to_string()),
            2 => Some("true".to_string()),
            3 => Some("false".to_string()),
            4 => {
                let s = string_of(&x.list()[1..]);
                if s.contains('"') || s.contains('\\') || s.contains('|') || ["null", "any", "true", "false"].contains(&s.as_str()) {
                    None
                } else {
                    Some(format!("\"{}\"", s))
                }
            }
            5 => Some(format!("{}", x.nth(1).int())),
            10 => Some(fix(x.nth(1).int())),
            _ => None,
        }
    };
    let or_list = |x: &Sx| -> Option<String> {
        let items = &x.list()[1..];
        if items.len() < 2 {
            return None;
        }
        if items.iter().all(|i| i.nth(0).int() == 5) {
            Some(items.iter().map(|i| format!("{}", i.nth(1).int())).collect::<Vec<_>>().join("|"))
        } else if items.iter().all(|i| i.nth(0).int() == 4) {
            let ss: Vec<String> = items.iter().map(|i| string_of(&i.list()[1..])).collect();
            if ss.iter().any(|s| s.is_empty() || s.contains('"') || s.contains('|') || s.contains('\\')) {
                None
            } else {
                Some(format!("\"{}\"", ss.join("|")))
            }
        } else {
            None
        }
    };
    match x.nth(0).int() {
        0..=5 | 10 => leaf(x).map(|v| format!("= {}", v)),
        6 => Some(format!("> {}", z)),
        7 => Some(format!(">= {}", z)),
        8 => Some(format!("< {}", z)),
        9 => Some(format!("<= {}", z)),
        11 => Some(format!("> {}", fix(z))),
        12 => Some(format!(">= {}", fix(z))),
        13 => Some(format!("< {}", fix(z))),
        14 => Some(format!("<= {}", fix(z))),
        18 => {
            let inner = x.nth(1);
            match inner.nth(0).int() {
                0..=5 | 10 => leaf(inner).map(|v| format!("!= {}", v)),
                20 => or_list(inner).map(|v| format!("!= {}", v)),
                _ => None,
            }
        }
        20 => or_list(x).map(|v| format!("= {}", v)),
        _ => None,
    }
}

const KWS: [&str; 10] = ["EQUALS", "EMBEDS", "EMBEDDED", "OVERLAPS", "PRECEDES", "SUCCEEDS", "SAMEBEGIN", "SAMEEND", "BEFORE", "AFTER"];
const TYPES: [&str; 6] = ["ANNOTATION", "DATA", "KEY", "RESOURCE", "DATASET", "TEXT"];

fn own_id(rt: i64, t: i64) -> String {
    match rt {
        0 => aid(t),
        3 => rid(t),
        _ => sid(t),
    }
}

fn cst_text(rt: i64, c: &Cst) -> Option<String> {
    let asq = |m: bool, kw: &str| if m { format!("AS {} ", kw) } else { String::new() };
    Some(match c {
        Cst::Id(t) => format!("ID \"{}\"", own_id(rt, *t)),
        Cst::Ann(VRef::Id(t), m) => format!("ANNOTATION {}\"{}\"", asq(*m, "TARGET"), aid(*t)),
        Cst::Ann(VRef::Var(v), m) => format!("ANNOTATION {}?{}", asq(*m, "TARGET"), vname(*v)),
        Cst::Res(VRef::Id(t), m) => format!("RESOURCE {}\"{}\"", asq(*m, "METADATA"), rid(*t)),
        Cst::Res(VRef::Var(v), m) => format!("RESOURCE {}?{}", asq(*m, "METADATA"), vname(*v)),
        Cst::Set(VRef::Id(t), m) => format!("DATASET {}\"{}\"", asq(*m, "METADATA"), sid(*t)),
        Cst::Set(VRef::Var(v), m) => format!("DATASET {}?{}", asq(*m, "METADATA"), vname(*v)),
        Cst::Key(d, k, m) => format!("DATA {}\"{}\" \"{}\"", asq(*m, "METADATA"), sid(*d), kid(*k)),
        Cst::KeyVal(d, k, o, m) => format!("DATA {}\"{}\" \"{}\" {}", asq(*m, "METADATA"), sid(*d), kid(*k), dop_text(o)?),
        Cst::Val(o) => format!("VALUE {}", dop_text(o)?),
        Cst::DataVar(v, m) => format!("DATA {}?{}", asq(*m, "METADATA"), vname(*v)),
        Cst::KeyVar(v, m) => format!("KEY {}?{}", asq(*m, "METADATA"), vname(*v)),
        Cst::TextVar(v) => format!("TEXT ?{}", vname(*v)),
        Cst::Rel(v, k) => format!("RELATION ?{} {}", vname(*v), KWS[(*k as usize) % 10]),
        Cst::Text(t, nocase) => {
            let s: String = t.iter().filter_map(|c| char::from_u32(*c as u32)).collect();
            if s.contains('"') || s.contains('\\') || s.starts_with('?') {
                return None;
            }
            format!("TEXT {}\"{}\"", if *nocase { "AS NOCASE " } else { "" }, s)
        }
        Cst::Union(cs) => {
            let parts: Option<Vec<String>> = cs.iter().map(|c| cst_text(rt, c)).collect();
            format!("[ {} ]", parts?.join(" OR "))
        }
    })
}

pub fn q_text(q: &Q) -> Option<String> {
    let mut s = format!("SELECT {}{} ?{}", if q.opt { "OPTIONAL " } else { "" }, TYPES[(q.rt as usize) % 6], vname(q.name));
    if !q.cs.is_empty() || q.lim.is_some() {
        s.push_str(" WHERE");
        for c in &q.cs {
            s.push(' ');
            s.push_str(&cst_text(q.rt, c)?);
            s.push(';');
        }
        if let Some((b, e)) = q.lim {
            s.push_str(&format!(" LIMIT {} {};", b, e));
        }
    }
    if let Some(sub) = &q.sub {
        s.push_str(" { ");
        s.push_str(&q_text(sub)?);
        s.push_str(" }");
    }
    Some(s)
}

// ------------------------------------------------------------------------------------------
// the same query through the constructors

fn leak(s: String) -> &'static str {
    Box::leak(s.into_boxed_str())
}
fn qual(m: bool) -> SelectionQualifier {
    if m {
        SelectionQualifier::Metadata
    } else {
        SelectionQualifier::Normal
    }
}
fn relop(k: i64) -> TextSelectionOperator {
    match k {
        0 => TextSelectionOperator::equals(),
        1 => TextSelectionOperator::embeds(),
        2 => TextSelectionOperator::embedded(),
        3 => TextSelectionOperator::overlaps(),
        4 => TextSelectionOperator::precedes(),
        5 => TextSelectionOperator::succeeds(),
        6 => TextSelectionOperator::samebegin(),
        7 => TextSelectionOperator::sameend(),
        8 => TextSelectionOperator::before(),
        _ => TextSelectionOperator::after(),
    }
}

fn cst_prog(rt: i64, c: &Cst) -> Constraint<'static> {
    let one = AnnotationDepth::One;
    match c {
        Cst::Id(t) => Constraint::Id(leak(own_id(rt, *t))),
        Cst::Ann(VRef::Id(t), m) => Constraint::Annotation(leak(aid(*t)), qual(*m), one, None),
        Cst::Ann(VRef::Var(v), m) => Constraint::AnnotationVariable(leak(vname(*v)), qual(*m), one, None),
        Cst::Res(VRef::Id(t), m) => Constraint::TextResource(leak(rid(*t)), qual(*m), None),
        Cst::Res(VRef::Var(v), m) => Constraint::ResourceVariable(leak(vname(*v)), qual(*m), None),
        Cst::Set(VRef::Id(t), m) => Constraint::DataSet(leak(sid(*t)), qual(*m)),
        Cst::Set(VRef::Var(v), m) => Constraint::DataSetVariable(leak(vname(*v)), qual(*m)),
        Cst::Key(d, k, m) => Constraint::DataKey { set: leak(sid(*d)), key: leak(kid(*k)), qualifier: qual(*m) },
        Cst::KeyVal(d, k, o, m) => Constraint::KeyValue { set: leak(sid(*d)), key: leak(kid(*k)), operator: super::c10_dop(o), qualifier: qual(*m) },
        Cst::Val(o) => Constraint::Value(super::c10_dop(o), SelectionQualifier::Normal),
        Cst::DataVar(v, m) => Constraint::DataVariable(leak(vname(*v)), qual(*m)),
        Cst::KeyVar(v, m) => Constraint::KeyVariable(leak(vname(*v)), qual(*m)),
        Cst::TextVar(v) => Constraint::TextVariable(leak(vname(*v))),
        Cst::Rel(v, k) => Constraint::TextRelation { var: leak(vname(*v)), operator: relop(*k) },
        Cst::Text(t, nocase) => Constraint::Text(
            leak(t.iter().filter_map(|c| char::from_u32(*c as u32)).collect()),
            if *nocase { TextMode::CaseInsensitive } else { TextMode::Exact },
        ),
        Cst::Union(cs) => Constraint::Union(cs.iter().map(|c| cst_prog(rt, c)).collect()),
    }
}

fn rtype(rt: i64) -> Type {
    match rt {
        0 => Type::Annotation,
        1 => Type::AnnotationData,
        2 => Type::DataKey,
        3 => Type::TextResource,
        4 => Type::AnnotationDataSet,
        _ => Type::TextSelection,
    }
}

pub fn q_prog(q: &Q) -> Query<'static> {
    let mut query = Query::new(QueryType::Select, Some(rtype(q.rt)), Some(leak(vname(q.name))));
    if q.opt {
        query = query.with_qualifier(QueryQualifier::Optional);
    }
    for c in &q.cs {
        query = query.with_constraint(cst_prog(q.rt, c));
    }
    if let Some((b, e)) = q.lim {
        query = query.with_constraint(Constraint::Limit { begin: b as isize, end: e as isize });
    }
    if let Some(sub) = &q.sub {
        query = query.with_subquery(q_prog(sub));
    }
    query
}

// ------------------------------------------------------------------------------------------
// observations

type Row = Vec<usize>;

fn item_row(it: &QueryResultItem, row: &mut Row) {
    match it {
        QueryResultItem::Annotation(x) => row.extend([0, x.handle().as_usize(), 0, 0]),
        QueryResultItem::AnnotationData(x) => row.extend([1, x.set().handle().as_usize(), x.handle().as_usize(), 0]),
        QueryResultItem::DataKey(x) => row.extend([2, x.set().handle().as_usize(), x.handle().as_usize(), 0]),
        QueryResultItem::TextResource(x) => row.extend([3, x.handle().as_usize(), 0, 0]),
        QueryResultItem::AnnotationDataSet(x) => row.extend([4, x.handle().as_usize(), 0, 0]),
        QueryResultItem::TextSelection(x) => row.extend([5, x.resource().handle().as_usize(), x.begin(), x.end()]),
        _ => row.extend([9, 0, 0, 0]),
    }
}

fn rows_sx(mut rows: Vec<Row>, ordered: bool) -> Sx {
    if !ordered {
        rows.sort();
    }
    l(rows.into_iter().map(nats).collect())
}

pub fn has_limit(q: &Q) -> bool {
    q.lim.is_some() || q.sub.as_ref().map(|s| has_limit(s)).unwrap_or(false)
}

fn run_query(store: &AnnotationStore, query: Query<'static>, ordered: bool) -> Sx {
    match guard(|| match store.query(query) {
        Err(_) => l(vec![a(-4)]),
        Ok(iter) => {
            let mut rows = Vec::new();
            for r in iter {
                let mut row = Row::new();
                for it in r.iter() {
                    item_row(it, &mut row);
                }
                rows.push(row);
            }
            rows_sx(rows, ordered)
        }
    }) {
        Some(x) => x,
        None => l(vec![a(-1)]),
    }
}

pub fn eval_text(store: &AnnotationStore, q: &Q) -> Sx {
    let text = match q_text(q) {
        Some(t) => t,
        None => return l(vec![a(-5)]),
    };
    let text: &'static str = leak(text);
    let parsed = guard(|| {
        let r: Result<Query<'static>, StamError> = text.try_into();
        r
    });
    match parsed {
        None => l(vec![a(-1)]),
        Some(Err(_)) => l(vec![a(-3)]),
        Some(Ok(query)) => run_query(store, query, false),
    }
}

pub fn eval_prog(store: &AnnotationStore, q: &Q) -> Sx {
    match guard(|| q_prog(q)) {
        Some(query) => run_query(store, query, false),
        None => l(vec![a(-1)]),
    }
}

// ------------------------------------------------------------------------------------------
// the iterator API: store.<all items>() followed by one filter per constraint

fn var_free(c: &Cst) -> bool {
    match c {
        Cst::Ann(VRef::Var(_), _) | Cst::Res(VRef::Var(_), _) | Cst::Set(VRef::Var(_), _) => false,
        Cst::DataVar(..) | Cst::KeyVar(..) | Cst::TextVar(..) | Cst::Rel(..) => false,
        Cst::Union(cs) => cs.iter().all(var_free),
        _ => true,
    }
}

fn chain_cst_ok(rt: i64, c: &Cst) -> bool {
    if !var_free(c) {
        return false;
    }
    match (rt, c) {
        (_, Cst::Union(cs)) => cs.iter().all(|c| chain_cst_ok(rt, c)),
        (0, Cst::Id(_)) | (0, Cst::Ann(..)) | (0, Cst::Res(..)) | (0, Cst::Set(_, false)) | (0, Cst::Key(_, _, false)) => true,
        (0, Cst::KeyVal(_, _, _, false)) | (0, Cst::Val(_)) | (0, Cst::Text(..)) => true,
        (1, Cst::Set(_, false)) | (1, Cst::Key(_, _, false)) | (1, Cst::KeyVal(_, _, _, false)) | (1, Cst::Val(_)) | (1, Cst::Ann(_, false)) => true,
        (2, Cst::Set(_, false)) | (2, Cst::Ann(_, false)) => true,
        (3, Cst::Id(_)) | (3, Cst::Res(..)) | (3, Cst::Key(..)) | (3, Cst::KeyVal(..)) => true,
        (4, Cst::Id(_)) | (4, Cst::Set(..)) => true,
        _ => false,
    }
}

pub fn chain_available(q: &Q) -> bool {
    q.sub.is_none() && q.rt != 5 && q.cs.iter().all(|c| chain_cst_ok(q.rt, c))
}

type AnnIter<'s> = Box<dyn Iterator<Item = ResultItem<'s, Annotation>> + 's>;
type DataIter<'s> = Box<dyn Iterator<Item = ResultItem<'s, AnnotationData>> + 's>;
type KeyIter<'s> = Box<dyn Iterator<Item = ResultItem<'s, DataKey>> + 's>;
type ResIter<'s> = Box<dyn Iterator<Item = ResultItem<'s, TextResource>> + 's>;
type SetIter<'s> = Box<dyn Iterator<Item = ResultItem<'s, AnnotationDataSet>> + 's>;

fn empty<'s, T: 's>() -> Box<dyn Iterator<Item = T> + 's> {
    Box::new(std::iter::empty())
}

fn chain_ann<'s>(store: &'s AnnotationStore, it: AnnIter<'s>, c: &Cst) -> AnnIter<'s> {
    match c {
        Cst::Id(t) => match store.annotation(aid(*t).as_str()) {
            Some(x) => Box::new(it.filter_one(&x)),
            None => empty(),
        },
        Cst::Ann(VRef::Id(t), m) => match store.annotation(aid(*t).as_str()) {
            Some(x) => {
                if *m {
                    Box::new(it.filter_annotation_in_targets(&x, AnnotationDepth::One))
                } else {
                    Box::new(it.filter_annotation(&x))
                }
            }
            None => empty(),
        },
        Cst::Res(VRef::Id(t), m) => match store.resource(rid(*t).as_str()) {
            Some(x) => {
                if *m {
                    Box::new(it.filter_resource_as_metadata(&x))
                } else {
                    Box::new(it.filter_resource(&x))
                }
            }
            None => empty(),
        },
        Cst::Set(VRef::Id(t), false) => match store.dataset(sid(*t).as_str()) {
            Some(x) => Box::new(it.filter_set(&x)),
            None => empty(),
        },
        Cst::Key(d, k, false) => match store.key(sid(*d).as_str(), kid(*k).as_str()) {
            Some(x) => Box::new(it.filter_key(&x)),
            None => empty(),
        },
        Cst::KeyVal(d, k, o, false) => match store.key(sid(*d).as_str(), kid(*k).as_str()) {
            Some(x) => Box::new(it.filter_key_value(&x, super::c10_dop(o))),
            None => empty(),
        },
        Cst::Val(o) => Box::new(it.filter_value(super::c10_dop(o))),
        Cst::Text(t, nocase) => {
            let s: String = t.iter().filter_map(|c| char::from_u32(*c as u32)).collect();
            Box::new(it.filter_text(s, !*nocase, " "))
        }
        Cst::Union(cs) => {
            let mut hs: BTreeSet<AnnotationHandle> = BTreeSet::new();
            for c in cs {
                hs.extend(chain_ann(store, Box::new(store.annotations()), c).map(|x| x.handle()));
            }
            Box::new(it.filter_any(Handles::from_iter(hs.into_iter(), store)))
        }
        _ => empty(),
    }
}

fn chain_data<'s>(store: &'s AnnotationStore, it: DataIter<'s>, c: &Cst) -> DataIter<'s> {
    match c {
        Cst::Set(VRef::Id(t), false) => match store.dataset(sid(*t).as_str()) {
            Some(x) => Box::new(it.filter_set(&x)),
            None => empty(),
        },
        Cst::Key(d, k, false) => match store.key(sid(*d).as_str(), kid(*k).as_str()) {
            Some(x) => Box::new(it.filter_key(&x)),
            None => empty(),
        },
        Cst::KeyVal(d, k, o, false) => match store.key(sid(*d).as_str(), kid(*k).as_str()) {
            Some(x) => Box::new(it.filter_key(&x).filter_value(super::c10_dop(o))),
            None => empty(),
        },
        Cst::Val(o) => Box::new(it.filter_value(super::c10_dop(o))),
        Cst::Ann(VRef::Id(t), false) => match store.annotation(aid(*t).as_str()) {
            Some(x) => Box::new(it.filter_annotation(&x)),
            None => empty(),
        },
        Cst::Union(cs) => {
            let mut hs: BTreeSet<(AnnotationDataSetHandle, AnnotationDataHandle)> = BTreeSet::new();
            for c in cs {
                hs.extend(chain_data(store, store.data(), c).map(|x| (x.set().handle(), x.handle())));
            }
            Box::new(it.filter_any(Handles::from_iter(hs.into_iter(), store)))
        }
        _ => empty(),
    }
}

fn chain_key<'s>(store: &'s AnnotationStore, it: KeyIter<'s>, c: &Cst) -> KeyIter<'s> {
    match c {
        Cst::Set(VRef::Id(t), false) => match store.dataset(sid(*t).as_str()) {
            Some(x) => Box::new(it.filter_set(&x)),
            None => empty(),
        },
        Cst::Ann(VRef::Id(t), false) => match store.annotation(aid(*t).as_str()) {
            Some(x) => Box::new(it.filter_annotation(&x)),
            None => empty(),
        },
        Cst::Union(cs) => {
            let mut hs: BTreeSet<(AnnotationDataSetHandle, DataKeyHandle)> = BTreeSet::new();
            for c in cs {
                hs.extend(chain_key(store, Box::new(store.keys()), c).map(|x| (x.set().handle(), x.handle())));
            }
            Box::new(it.filter_any(Handles::from_iter(hs.into_iter(), store)))
        }
        _ => empty(),
    }
}

fn chain_res<'s>(store: &'s AnnotationStore, it: ResIter<'s>, c: &Cst) -> ResIter<'s> {
    match c {
        Cst::Id(t) | Cst::Res(VRef::Id(t), _) => match store.resource(rid(*t).as_str()) {
            Some(x) => Box::new(it.filter_one(&x)),
            None => empty(),
        },
        Cst::Key(d, k, m) => match store.key(sid(*d).as_str(), kid(*k).as_str()) {
            Some(x) => {
                if *m {
                    Box::new(it.filter_key_in_metadata(&x))
                } else {
                    Box::new(it.filter_key_on_text(&x))
                }
            }
            None => empty(),
        },
        Cst::KeyVal(d, k, o, m) => match store.key(sid(*d).as_str(), kid(*k).as_str()) {
            Some(x) => {
                if *m {
                    Box::new(it.filter_key_value_in_metadata(&x, super::c10_dop(o)))
                } else {
                    Box::new(it.filter_key_value_on_text(&x, super::c10_dop(o)))
                }
            }
            None => empty(),
        },
        Cst::Union(cs) => {
            let mut hs: BTreeSet<TextResourceHandle> = BTreeSet::new();
            for c in cs {
                hs.extend(chain_res(store, Box::new(store.resources()), c).map(|x| x.handle()));
            }
            Box::new(it.filter_any(Handles::from_iter(hs.into_iter(), store)))
        }
        _ => empty(),
    }
}

fn chain_set<'s>(store: &'s AnnotationStore, it: SetIter<'s>, c: &Cst) -> SetIter<'s> {
    match c {
        Cst::Id(t) | Cst::Set(VRef::Id(t), _) => match store.dataset(sid(*t).as_str()) {
            Some(x) => Box::new(it.filter_handle(x.handle())),
            None => empty(),
        },
        Cst::Union(cs) => {
            let mut hs: BTreeSet<AnnotationDataSetHandle> = BTreeSet::new();
            for c in cs {
                hs.extend(chain_set(store, Box::new(store.datasets()), c).map(|x| x.handle()));
            }
            Box::new(it.filter_any(Handles::from_iter(hs.into_iter(), store)))
        }
        _ => empty(),
    }
}

fn limited<T>(v: Vec<T>, lim: Option<(i64, i64)>) -> Vec<T> {
    match lim {
        Some((b, e)) => v.into_iter().limit(b as isize, e as isize).collect(),
        None => v,
    }
}

pub fn eval_chain(store: &AnnotationStore, q: &Q) -> Sx {
    let r = guard(|| {
        let rows: Vec<Row> = match q.rt {
            0 => {
                let mut it: AnnIter = Box::new(store.annotations());
                for c in &q.cs {
                    it = chain_ann(store, it, c);
                }
                limited(it.collect(), q.lim).into_iter().map(|x| vec![0, x.handle().as_usize(), 0, 0]).collect()
            }
            1 => {
                let mut it: DataIter = store.data();
                for c in &q.cs {
                    it = chain_data(store, it, c);
                }
                limited(it.collect(), q.lim).into_iter().map(|x| vec![1, x.set().handle().as_usize(), x.handle().as_usize(), 0]).collect()
            }
            2 => {
                let mut it: KeyIter = Box::new(store.keys());
                for c in &q.cs {
                    it = chain_key(store, it, c);
                }
                limited(it.collect(), q.lim).into_iter().map(|x| vec![2, x.set().handle().as_usize(), x.handle().as_usize(), 0]).collect()
            }
            3 => {
                let mut it: ResIter = Box::new(store.resources());
                for c in &q.cs {
                    it = chain_res(store, it, c);
                }
                limited(it.collect(), q.lim).into_iter().map(|x| vec![3, x.handle().as_usize(), 0, 0]).collect()
            }
            _ => {
                let mut it: SetIter = Box::new(store.datasets());
                for c in &q.cs {
                    it = chain_set(store, it, c);
                }
                limited(it.collect(), q.lim).into_iter().map(|x| vec![4, x.handle().as_usize(), 0, 0]).collect()
            }
        };
        rows_sx(rows, false)
    });
    r.unwrap_or_else(|| l(vec![a(-1)]))
}

// ------------------------------------------------------------------------------------------
// ADD / DELETE

fn state_sx(store: &AnnotationStore) -> Sx {
    l(observe(store))
}

fn value_text(v: &Sx) -> Option<String> {
    match v.nth(0).int() {
        0 => Some("null".to_string()),
        1 => Some(if v.nth(1).int() != 0 { "true" } else { "false" }.to_string()),
        2 => Some(format!("{}", v.nth(1).int())),
        3 => Some(fix(v.nth(1).int())),
        4 => {
            let s = string_of(&v.list()[1..]);
            if s.contains('"') || s.contains('\\') || s.contains('|') || ["null", "any", "true", "false"].contains(&s.as_str()) {
                None
            } else {
                Some(format!("\"{}\"", s))
            }
        }
        _ => None,
    }
}

/// (id|-1 ((set key value) ...) target sub off)
pub fn add_text(x: &Sx) -> Option<String> {
    let sub = q_of(x.nth(3));
    let mut s = String::from("ADD ANNOTATION ?new WITH");
    if x.nth(0).int() >= 0 {
        s.push_str(&format!(" ID \"{}\";", aid(x.nth(0).int())));
    }
    for d in x.nth(1).list() {
        s.push_str(&format!(" DATA \"{}\" \"{}\" {};", sid(d.nth(0).int()), kid(d.nth(1).int()), value_text(d.nth(2))?));
    }
    let cur = |c: &Sx| -> String {
        if c.nth(0).int() == 0 {
            format!("{}", c.nth(1).int())
        } else if c.nth(1).int() == 0 {
            "-0".to_string()
        } else {
            format!("{}", c.nth(1).int())
        }
    };
    if x.nth(4).list().len() == 2 {
        s.push_str(&format!(" TARGET ?{} OFFSET {} {};", vname(x.nth(2).int()), cur(x.nth(4).nth(0)), cur(x.nth(4).nth(1))));
    } else {
        s.push_str(&format!(" TARGET ?{};", vname(x.nth(2).int())));
    }
    s.push_str(" { ");
    s.push_str(&q_text(&sub)?);
    s.push_str(" }");
    Some(s)
}

fn mut_outcome(store: &mut AnnotationStore, text: &'static str) -> i64 {
    let st = store;
    let r = guard(move || {
        let query: Result<Query<'static>, StamError> = text.try_into();
        match query {
            Err(_) => -3,
            Ok(query) => match st.query_mut(query) {
                Ok(iter) => {
                    let _n = iter.count();
                    1
                }
                Err(_) => 0,
            },
        }
    });
    r.unwrap_or(-1)
}

/// the position a cursor relative to a text of the given length denotes
fn rel(c: &Sx, len: usize) -> Option<usize> {
    let v = c.nth(1).int();
    if c.nth(0).int() == 0 {
        Some(v as usize)
    } else if v > 0 || (-v) as usize > len {
        None
    } else {
        Some(len - (-v) as usize)
    }
}

/// the target of the direct annotate() call; off = the OFFSET of the ADD query: relative to a text
/// selection (worked out here, by hand), handed on for an annotation, ignored for the rest
fn selector_of(it: &QueryResultItem, off: &Sx) -> Option<SelectorBuilder<'static>> {
    let has_off = off.list().len() == 2;
    Some(match it {
        QueryResultItem::Annotation(x) if has_off => SelectorBuilder::AnnotationSelector(
            BuildItem::Handle(x.handle()),
            Some(Offset::new(crate::storegen::cursor(off.nth(0)), crate::storegen::cursor(off.nth(1)))),
        ),
        QueryResultItem::TextSelection(x) if has_off => {
            let len = x.end() - x.begin();
            let b = rel(off.nth(0), len)?;
            let e = rel(off.nth(1), len)?;
            if b > len || e > len || b > e {
                return None;
            }
            SelectorBuilder::TextSelector(BuildItem::Handle(x.resource().handle()), Offset::simple(x.begin() + b, x.begin() + e))
        }
        QueryResultItem::Annotation(x) => SelectorBuilder::AnnotationSelector(BuildItem::Handle(x.handle()), None),
        QueryResultItem::TextSelection(x) => SelectorBuilder::TextSelector(BuildItem::Handle(x.resource().handle()), Offset::simple(x.begin(), x.end())),
        QueryResultItem::TextResource(x) => SelectorBuilder::ResourceSelector(BuildItem::Handle(x.handle())),
        QueryResultItem::AnnotationDataSet(x) => SelectorBuilder::DataSetSelector(BuildItem::Handle(x.handle())),
        QueryResultItem::AnnotationData(x) => SelectorBuilder::AnnotationDataSelector(BuildItem::Handle(x.set().handle()), BuildItem::Handle(x.handle())),
        QueryResultItem::DataKey(x) => SelectorBuilder::DataKeySelector(BuildItem::Handle(x.set().handle()), BuildItem::Handle(x.handle())),
        _ => return None,
    })
}

/// ADD through query_mut on one store, the equivalent direct calls on a second one
pub fn exec_add(a_store: &mut AnnotationStore, b_store: &mut AnnotationStore, x: &Sx) -> Vec<Sx> {
    let first = match add_text(x) {
        None => l(vec![a(-5)]),
        Some(text) => {
            let code = mut_outcome(a_store, leak(text));
            l(vec![a(code), state_sx(a_store)])
        }
    };
    // direct: rows of the sub-query, then one annotate() per row, stopping at the first failure
    let sub = q_of(x.nth(3));
    let target = leak(vname(x.nth(2).int()));
    let second = guard(|| {
        let targets: Option<Vec<SelectorBuilder<'static>>> = {
            match b_store.query(q_prog(&sub)) {
                Err(_) => None,
                Ok(iter) => iter.map(|row| row.get_by_name(target).ok().and_then(|it| selector_of(it, x.nth(4)))).collect(),
            }
        };
        let mut code = 1;
        match targets {
            None => code = 0,
            Some(ts) => {
                for t in ts {
                    let mut b = AnnotationBuilder::new().with_target(t);
                    if x.nth(0).int() >= 0 {
                        b = b.with_id(aid(x.nth(0).int()));
                    }
                    for d in x.nth(1).list() {
                        b = b.with_data_builder(
                            AnnotationDataBuilder::new()
                                .with_dataset(BuildItem::Id(sid(d.nth(0).int())))
                                .with_key(BuildItem::Id(kid(d.nth(1).int())))
                                .with_value(value(d.nth(2))),
                        );
                    }
                    if b_store.annotate(b).is_err() {
                        code = 0;
                        break;
                    }
                }
            }
        }
        l(vec![a(code), state_sx(b_store)])
    })
    .unwrap_or_else(|| l(vec![a(-1)]));
    vec![first, second]
}

/// result type of the level that binds the variable (ANNOTATION when no level does)
pub fn var_rt(v: i64, sub: &Q) -> i64 {
    let mut q = Some(sub);
    while let Some(x) = q {
        if x.name == v {
            return x.rt;
        }
        q = x.sub.as_deref();
    }
    0
}

/// STAMQL has DELETE ANNOTATION only (parse_delete refuses every other type); query_mut() also
/// takes DELETE queries over data, keys, resources and data sets built with the constructors
pub fn delete_text(v: i64, sub: &Q, nosub: bool) -> Option<String> {
    if nosub {
        Some(format!("DELETE ANNOTATION ?{}", vname(v)))
    } else {
        Some(format!("DELETE ANNOTATION ?{} {{ {} }}", vname(v), q_text(sub)?))
    }
}

/// DELETE <type of the variable> ?v { sub } through the constructors
fn delete_prog_outcome(store: &mut AnnotationStore, v: i64, sub: &Q) -> i64 {
    let ty = rtype(var_rt(v, sub));
    let query = Query::new(QueryType::Delete, Some(ty), Some(leak(vname(v)))).with_subquery(q_prog(sub));
    let st = store;
    guard(move || match st.query_mut(query) {
        Ok(iter) => {
            let _n = iter.count();
            1
        }
        Err(_) => 0,
    })
    .unwrap_or(-1)
}

enum Del {
    Ann(AnnotationHandle),
    Res(TextResourceHandle),
    Set(AnnotationDataSetHandle),
    Data(AnnotationDataSetHandle, AnnotationDataHandle),
    Key(AnnotationDataSetHandle, DataKeyHandle),
}

pub fn exec_delete(a_store: &mut AnnotationStore, b_store: &mut AnnotationStore, v: i64, sub: &Q, nosub: bool) -> Vec<Sx> {
    // as text when the variable is an annotation (or a text selection: an error), else built
    let by_text = nosub || matches!(var_rt(v, sub), 0 | 5);
    let first = if by_text {
        match delete_text(v, sub, nosub) {
            None => l(vec![a(-5)]),
            Some(text) => {
                let code = mut_outcome(a_store, leak(text));
                if code == -1 {
                    l(vec![a(-1)])
                } else {
                    l(vec![a(code), state_sx(a_store)])
                }
            }
        }
    } else {
        let code = delete_prog_outcome(a_store, v, sub);
        if code == -1 {
            l(vec![a(-1)])
        } else {
            l(vec![a(code), state_sx(a_store)])
        }
    };
    if nosub {
        return vec![first];
    }
    let name = leak(vname(v));
    let second = guard(|| {
        // every row must bind the variable to an item that can be removed; otherwise nothing is removed
        let items: Option<Vec<Del>> = {
            match b_store.query(q_prog(sub)) {
                Err(_) => None,
                Ok(iter) => iter
                    .map(|row| match row.get_by_name(name) {
                        Ok(QueryResultItem::Annotation(x)) => Some(Del::Ann(x.handle())),
                        Ok(QueryResultItem::TextResource(x)) => Some(Del::Res(x.handle())),
                        Ok(QueryResultItem::AnnotationDataSet(x)) => Some(Del::Set(x.handle())),
                        Ok(QueryResultItem::AnnotationData(x)) => Some(Del::Data(x.set().handle(), x.handle())),
                        Ok(QueryResultItem::DataKey(x)) => Some(Del::Key(x.set().handle(), x.handle())),
                        _ => None,
                    })
                    .collect(),
            }
        };
        match items {
            None => l(vec![a(0), state_sx(b_store)]),
            Some(items) => {
                // the direct calls, for what is still there
                for it in items {
                    match it {
                        Del::Ann(h) => {
                            let _ = b_store.remove_annotation(h);
                        }
                        Del::Res(h) => {
                            let _ = b_store.remove_resource(h);
                        }
                        Del::Set(h) => {
                            let _ = b_store.remove_dataset(h);
                        }
                        Del::Data(sh, h) => {
                            let there = b_store.dataset(sh).map(|st| st.annotationdata(h).is_some()).unwrap_or(false);
                            if there {
                                let _ = b_store.remove_data(sh, h, true);
                            }
                        }
                        Del::Key(sh, h) => {
                            let there = b_store.dataset(sh).map(|st| st.key(h).is_some()).unwrap_or(false);
                            if there {
                                let _ = b_store.remove_key(sh, h, true);
                            }
                        }
                    }
                }
                l(vec![a(1), state_sx(b_store)])
            }
        }
    })
    .unwrap_or_else(|| l(vec![a(-1)]));
    vec![first, second]
}

// ------------------------------------------------------------------------------------------
// a collection of handles kept from an earlier query and used again after one of its members has
// been removed from the store (request 8)

/// the distinct outer items (four numbers each) of the rows of a query, sorted
pub fn collection_of(rows: &Sx) -> Option<Vec<Vec<usize>>> {
    let mut out: Vec<Vec<usize>> = Vec::new();
    for r in rows.list() {
        if matches!(r, Sx::A(_)) {
            return None; // an error code, not rows
        }
        let it: Vec<usize> = r.list().iter().take(4).map(|x| x.int() as usize).collect();
        if it.len() == 4 {
            out.push(it);
        }
    }
    out.sort();
    out.dedup();
    Some(out)
}

fn remove_item(store: &mut AnnotationStore, it: &[usize]) {
    match it[0] {
        0 => {
            let _ = store.remove_annotation(AnnotationHandle::new(it[1]));
        }
        1 => {
            let (sh, h) = (AnnotationDataSetHandle::new(it[1]), AnnotationDataHandle::new(it[2]));
            if store.dataset(sh).map(|st| st.annotationdata(h).is_some()).unwrap_or(false) {
                let _ = store.remove_data(sh, h, true);
            }
        }
        2 => {
            let (sh, h) = (AnnotationDataSetHandle::new(it[1]), DataKeyHandle::new(it[2]));
            if store.dataset(sh).map(|st| st.key(h).is_some()).unwrap_or(false) {
                let _ = store.remove_key(sh, h, true);
            }
        }
        3 => {
            let _ = store.remove_resource(TextResourceHandle::new(it[1]));
        }
        4 => {
            let _ = store.remove_dataset(AnnotationDataSetHandle::new(it[1]));
        }
        _ => {}
    }
}

/// the query q gives a collection (handles only); `victim` is removed from the store by the direct
/// call; then the collection is used again: Handles::items(), SELECT <type> WHERE <collection>
/// through the constructor, <all items>.filter_any(<collection>): each time the members that
/// are still there
pub fn exec_collection(store: &mut AnnotationStore, q: &Q, victim: &Sx) -> Vec<Sx> {
    let rows = eval_prog(store, q);
    let coll = match collection_of(&rows) {
        Some(c) => c,
        None => return vec![rows.clone(), rows.clone(), rows],
    };
    let victim: Vec<usize> = victim.list().iter().map(|x| x.int() as usize).collect();
    if victim.len() == 4 && guard(|| remove_item(store, &victim)).is_none() {
        return vec![l(vec![a(-1)]); 3];
    }
    let store: &AnnotationStore = store;
    let rt = q.rt;
    let name = leak(vname(q.name));
    let anns = || -> Annotations { Handles::new(std::borrow::Cow::Owned(coll.iter().map(|x| AnnotationHandle::new(x[1])).collect()), true, store) };
    let ress = || -> Resources { Handles::new(std::borrow::Cow::Owned(coll.iter().map(|x| TextResourceHandle::new(x[1])).collect()), true, store) };
    let data = || -> Data { Handles::new(std::borrow::Cow::Owned(coll.iter().map(|x| (AnnotationDataSetHandle::new(x[1]), AnnotationDataHandle::new(x[2]))).collect()), true, store) };
    let keys = || -> Keys { Handles::new(std::borrow::Cow::Owned(coll.iter().map(|x| (AnnotationDataSetHandle::new(x[1]), DataKeyHandle::new(x[2]))).collect()), true, store) };
    let items = guard(|| {
        let rows: Vec<Row> = match rt {
            0 => anns().items().map(|x| vec![0, x.handle().as_usize(), 0, 0]).collect(),
            1 => data().items().map(|x| vec![1, x.set().handle().as_usize(), x.handle().as_usize(), 0]).collect(),
            2 => keys().items().map(|x| vec![2, x.set().handle().as_usize(), x.handle().as_usize(), 0]).collect(),
            _ => ress().items().map(|x| vec![3, x.handle().as_usize(), 0, 0]).collect(),
        };
        rows_sx(rows, false)
    })
    .unwrap_or_else(|| l(vec![a(-1)]));
    let by_query = match guard(|| {
        let c = match rt {
            0 => Constraint::Annotations(anns(), SelectionQualifier::Normal, AnnotationDepth::Zero),
            1 => Constraint::Data(data(), SelectionQualifier::Normal),
            2 => Constraint::Keys(keys(), SelectionQualifier::Normal),
            _ => Constraint::Resources(ress(), SelectionQualifier::Normal),
        };
        Query::new(QueryType::Select, Some(rtype(rt)), Some(name)).with_constraint(c)
    }) {
        Some(query) => {
            // (the query borrows the store for its own lifetime: run it here)
            match guard(|| match store.query(query) {
                Err(_) => l(vec![a(-4)]),
                Ok(iter) => {
                    let mut rows = Vec::new();
                    for r in iter {
                        let mut row = Row::new();
                        for it in r.iter() {
                            item_row(it, &mut row);
                        }
                        rows.push(row);
                    }
                    rows_sx(rows, false)
                }
            }) {
                Some(x) => x,
                None => l(vec![a(-1)]),
            }
        }
        None => l(vec![a(-1)]),
    };
    let filtered = guard(|| {
        let rows: Vec<Row> = match rt {
            0 => store.annotations().filter_any(anns()).map(|x| vec![0, x.handle().as_usize(), 0, 0]).collect(),
            1 => store
                .datasets()
                .flat_map(|st| st.data())
                .filter_any(data())
                .map(|x| vec![1, x.set().handle().as_usize(), x.handle().as_usize(), 0])
                .collect(),
            2 => store
                .datasets()
                .flat_map(|st| st.keys())
                .filter_any(keys())
                .map(|x| vec![2, x.set().handle().as_usize(), x.handle().as_usize(), 0])
                .collect(),
            _ => store.resources().filter_any(ress()).map(|x| vec![3, x.handle().as_usize(), 0, 0]).collect(),
        };
        rows_sx(rows, false)
    })
    .unwrap_or_else(|| l(vec![a(-1)]));
    vec![items, by_query, filtered]
}

// ------------------------------------------------------------------------------------------
// generation of queries from the grammar of the fragment

pub fn gen_dop(rng: &mut Rng) -> Sx {
    let strs: [&[i64]; 7] = [&[], &[97], &[98], &[49], &[233, 128512], &[50], &[79, 78]];
    let s = |rng: &mut Rng| -> Sx {
        let mut v = vec![a(4)];
        v.extend(strs[rng.below(strs.len())].iter().map(|c| a(*c)));
        l(v)
    };
    let leaf = |rng: &mut Rng| -> Sx {
        // float operands have no STAMQL syntax (the lexer never answers Float: C09 Known_C09_float)
        match rng.below(7) {
            0 => l(vec![a(0)]),
            1 => l(vec![a(2)]),
            2 => l(vec![a(3)]),
            3 | 4 => l(vec![a(5), a(rng.range(-3, 3))]),
            _ => s(rng),
        }
    };
    match rng.below(12) {
        0 => l(vec![a(1)]),
        1..=4 => leaf(rng),
        5 | 6 => l(vec![a(6 + rng.below(4) as i64), a(rng.range(-3, 3))]),
        7 | 8 => l(vec![a(18), leaf(rng)]),
        9 => {
            let mut v = vec![a(20)];
            let n = 2 + rng.below(2);
            if rng.chance(1, 2) {
                for _ in 0..n {
                    v.push(l(vec![a(5), a(rng.range(-3, 3))]));
                }
            } else {
                for _ in 0..n {
                    let mut t = vec![a(4)];
                    t.extend(strs[1 + rng.below(strs.len() - 1)].iter().map(|c| a(*c)));
                    v.push(l(t));
                }
            }
            l(v)
        }
        10 => {
            let mut v = vec![a(20)];
            for _ in 0..2 {
                v.push(l(vec![a(5), a(rng.range(-3, 3))]));
            }
            l(vec![a(18), l(v)])
        }
        _ => leaf(rng),
    }
}

const ALPHA: [i64; 9] = [97, 233, 32, 28450, 66, 128512, 99, 201, 98];

/// the text of positions b..e of a resource of the C08 harness: 'a' 'é' ' ' '漢' 'B' '😀' 'c' 'É' 'b' repeated
pub fn text_cps(b: usize, e: usize) -> Vec<i64> {
    (b..e).map(|i| ALPHA[i % ALPHA.len()]).collect()
}

/// apply one operation of a history; a resource gets the C08 text of its length (the store model
/// only knows the length), everything else is crate::storegen::apply
pub fn apply_c08(store: &mut AnnotationStore, op: &Sx) {
    if op.nth(0).int() == 0 {
        let text: String = text_cps(0, op.nth(2).int() as usize).iter().filter_map(|c| char::from_u32(*c as u32)).collect();
        let b = TextResourceBuilder::new().with_id(rid(op.nth(1).int())).with_text(text);
        let _ = guard(|| store.add_resource(b));
    } else {
        let _ = crate::storegen::apply(store, op);
    }
}

fn flip_case(c: i64) -> i64 {
    match c {
        97..=122 => c - 32,
        65..=90 => c + 32,
        233 => 201,
        201 => 233,
        _ => c,
    }
}

pub struct Outer {
    pub name: i64,
    pub rt: i64,
}

fn pick_var(rng: &mut Rng, outer: &[Outer], rt: i64) -> Option<i64> {
    let c: Vec<i64> = outer.iter().filter(|o| o.rt == rt).map(|o| o.name).collect();
    if c.is_empty() {
        None
    } else {
        Some(*rng.pick(&c))
    }
}

fn gen_ref(rng: &mut Rng, outer: &[Outer], rt: i64, ntok: usize) -> VRef {
    if rng.chance(1, 2) {
        if let Some(v) = pick_var(rng, outer, rt) {
            return VRef::Var(v);
        }
    }
    VRef::Id(rng.below(ntok) as i64)
}

/// one non-union constraint that is in the fragment for result type rt
fn gen_simple(rng: &mut Rng, rt: i64, outer: &[Outer], cfg: &QCfg) -> Cst {
    let texts = cfg.texts;
    let set = |rng: &mut Rng| rng.below(4) as i64;
    let key = |rng: &mut Rng| rng.below(3) as i64;
    for _ in 0..20 {
        let c = match rt {
            0 => match rng.below(14) {
                0 => Some(Cst::Id(rng.below(8) as i64)),
                1 | 2 => Some(Cst::Ann(gen_ref(rng, outer, 0, 8), rng.chance(1, 2))),
                3 | 4 => Some(Cst::Res(gen_ref(rng, outer, 3, 6), rng.chance(1, 3))),
                5 => {
                    let r = gen_ref(rng, outer, 4, 4);
                    let m = matches!(r, VRef::Id(_)) && rng.chance(1, 3);
                    Some(Cst::Set(r, m))
                }
                6 | 7 => Some(Cst::Key(set(rng), key(rng), false)),
                8 | 9 => Some(Cst::KeyVal(set(rng), key(rng), gen_dop(rng), false)),
                10 => Some(Cst::Val(gen_dop(rng))),
                11 => pick_var(rng, outer, 1).map(|v| Cst::DataVar(v, false)),
                12 => pick_var(rng, outer, 2).map(|v| Cst::KeyVar(v, false)),
                _ => {
                    if !texts {
                        None
                    } else {
                        match rng.below(3) {
                            0 => {
                                let b = rng.below(6);
                                let e = b + rng.below(4);
                                let nocase = rng.chance(1, 3);
                                let mut t = if !cfg.pool.is_empty() && rng.chance(3, 4) { rng.pick(&cfg.pool).clone() } else { text_cps(b, e) };
                                if nocase && rng.chance(2, 3) {
                                    // NOCASE: the literal in another case than the text (ASCII and non-ASCII letters)
                                    let all = rng.chance(1, 2);
                                    for c in t.iter_mut() {
                                        if all || rng.chance(1, 2) {
                                            *c = flip_case(*c);
                                        }
                                    }
                                }
                                Some(Cst::Text(t, nocase))
                            }
                            1 => pick_var(rng, outer, 5).or(pick_var(rng, outer, 0)).map(Cst::TextVar),
                            _ => pick_var(rng, outer, 5).or(pick_var(rng, outer, 0)).map(|v| Cst::Rel(v, rng.below(10) as i64)),
                        }
                    }
                }
            },
            1 => match rng.below(9) {
                0 => Some(Cst::Set(gen_ref(rng, outer, 4, 4), false)),
                1 => Some(Cst::Key(set(rng), key(rng), false)),
                2 => Some(Cst::KeyVal(set(rng), key(rng), gen_dop(rng), false)),
                3 | 4 => Some(Cst::Val(gen_dop(rng))),
                5 | 6 => Some(Cst::Ann(gen_ref(rng, outer, 0, 8), rng.chance(1, 3))),
                7 => pick_var(rng, outer, 2).map(|v| Cst::KeyVar(v, false)),
                _ => pick_var(rng, outer, 1).map(|v| Cst::DataVar(v, false)),
            },
            2 => match rng.below(5) {
                0 | 1 => Some(Cst::Set(gen_ref(rng, outer, 4, 4), false)),
                2 => Some(Cst::Ann(gen_ref(rng, outer, 0, 8), rng.chance(1, 3))),
                3 => pick_var(rng, outer, 1).map(|v| Cst::DataVar(v, false)),
                _ => pick_var(rng, outer, 2).map(|v| Cst::KeyVar(v, false)),
            },
            3 => match rng.below(7) {
                0 => Some(Cst::Id(rng.below(6) as i64)),
                1 => Some(Cst::Res(VRef::Id(rng.below(6) as i64), rng.chance(1, 2))),
                2 | 3 => Some(Cst::Key(set(rng), key(rng), rng.chance(1, 2))),
                4 => Some(Cst::KeyVal(set(rng), key(rng), gen_dop(rng), rng.chance(1, 2))),
                5 => pick_var(rng, outer, 1).map(|v| Cst::DataVar(v, rng.chance(1, 2))),
                _ => pick_var(rng, outer, 2).map(|v| Cst::KeyVar(v, rng.chance(1, 2))),
            },
            4 => match rng.below(4) {
                0 => Some(Cst::Id(rng.below(4) as i64)),
                1 => {
                    let r = gen_ref(rng, outer, 4, 4);
                    let m = matches!(r, VRef::Id(_)) && rng.chance(1, 2);
                    Some(Cst::Set(r, m))
                }
                2 => pick_var(rng, outer, 2).map(|v| Cst::KeyVar(v, false)),
                _ => pick_var(rng, outer, 1).map(|v| Cst::DataVar(v, false)),
            },
            _ => match rng.below(10) {
                0 | 1 => Some(Cst::Res(gen_ref(rng, outer, 3, 6), false)),
                2 | 3 => Some(Cst::Ann(gen_ref(rng, outer, 0, 8), false)),
                4 => Some(Cst::Key(set(rng), key(rng), false)),
                5 => Some(Cst::KeyVal(set(rng), key(rng), gen_dop(rng), false)),
                6 => Some(Cst::Val(gen_dop(rng))),
                7 => pick_var(rng, outer, 1).map(|v| Cst::DataVar(v, false)),
                8 => pick_var(rng, outer, 5).map(Cst::TextVar).or_else(|| {
                    if !cfg.pool.is_empty() {
                        let nocase = rng.chance(1, 2);
                        let mut t = rng.pick(&cfg.pool).clone();
                        if nocase {
                            let all = rng.chance(1, 2);
                            for c in t.iter_mut() {
                                if all || rng.chance(1, 2) {
                                    *c = flip_case(*c);
                                }
                            }
                        }
                        Some(Cst::Text(t, nocase))
                    } else {
                        None
                    }
                }),
                _ => pick_var(rng, outer, 5).or(pick_var(rng, outer, 0)).map(|v| Cst::Rel(v, rng.below(10) as i64)),
            },
        };
        if let Some(c) = c {
            return c;
        }
    }
    // always available
    match rt {
        0 | 5 => Cst::Res(VRef::Id(0), false),
        1 | 2 => Cst::Set(VRef::Id(0), false),
        3 => Cst::Id(0),
        _ => Cst::Id(0),
    }
}

pub struct QCfg {
    /// texts of annotations of the store the queries are meant for (literals that can match)
    pub pool: Vec<Vec<i64>>,
    /// per result type: for some items of the store, constraints the item satisfies
    pub facts: Vec<(i64, Vec<Cst>)>,
    pub rts: Vec<i64>,
    pub texts: bool,
    pub unions: bool,
    pub limits: bool,
    pub max_depth: usize,
}

pub fn gen_cst(rng: &mut Rng, rt: i64, outer: &[Outer], cfg: &QCfg) -> Cst {
    if cfg.unions && rng.chance(1, if rt == 5 { 12 } else { 6 }) {
        let n = 2 + rng.below(2);
        Cst::Union((0..n).map(|_| gen_simple(rng, rt, outer, cfg)).collect())
    } else {
        gen_simple(rng, rt, outer, cfg)
    }
}

pub fn gen_query(rng: &mut Rng, cfg: &QCfg, outer: &mut Vec<Outer>, depth: usize) -> Q {
    let rt = *rng.pick(&cfg.rts);
    let name = outer.len() as i64;
    let n = match rng.below(8) {
        0 => 0,
        1..=3 => 1,
        4..=5 => 2,
        6 => 3,
        _ => 4,
    };
    let mut cs: Vec<Cst> = (0..n).map(|_| gen_cst(rng, rt, outer, cfg)).collect();
    // half of the outer levels describe an item that exists: constraints taken from its facts
    let mine: Vec<&Vec<Cst>> = cfg.facts.iter().filter(|f| f.0 == rt && !f.1.is_empty()).map(|f| &f.1).collect();
    if depth == 0 && !mine.is_empty() && rng.chance(1, 2) {
        let f = *rng.pick(&mine);
        for c in cs.iter_mut() {
            if rng.chance(3, 4) {
                let fact = rng.pick(f).clone();
                *c = if cfg.unions && rng.chance(1, 6) { Cst::Union(vec![gen_simple(rng, rt, outer, cfg), fact]) } else { fact };
            }
        }
    }
    // a sub-query normally refers to an enclosing variable
    if depth > 0 && rng.chance(4, 5) {
        for _ in 0..10 {
            let c = gen_simple(rng, rt, outer, cfg);
            if !var_free(&c) {
                if cs.is_empty() {
                    cs.push(c);
                } else {
                    let i = rng.below(cs.len());
                    cs[i] = c;
                }
                break;
            }
        }
    }
    // the order of TEXT results (textual order, ties between resources by an unstable sort) is
    // not modelled: no LIMIT on a TEXT level, no OPTIONAL level below one (what an OPTIONAL
    // without results cuts off depends on that order, Known_C08_optional)
    let under_text = outer.iter().any(|o| o.rt == 5);
    let lim = if cfg.limits && rt != 5 && rng.chance(1, 4) { Some((rng.range(-3, 4), rng.range(-3, 4))) } else { None };
    let opt = depth > 0 && !under_text && rng.chance(1, 2);
    let sub = if depth < cfg.max_depth && rng.chance(if depth == 0 { 2 } else { 1 }, 4) {
        outer.push(Outer { name, rt });
        let s = gen_query(rng, cfg, outer, depth + 1);
        outer.pop();
        Some(Box::new(s))
    } else {
        None
    };
    Q { name, rt, cs, lim, opt, sub }
}

/// every ordering of the items (index-lexicographic)
pub fn permutations<T: Clone>(v: &[T]) -> Vec<Vec<T>> {
    if v.is_empty() {
        return vec![vec![]];
    }
    let mut out = Vec::new();
    for i in 0..v.len() {
        let mut rest = v.to_vec();
        let x = rest.remove(i);
        for mut p in permutations(&rest) {
            p.insert(0, x.clone());
            out.push(p);
        }
    }
    out
}

fn tok(id: Option<&str>, prefix: char) -> Option<i64> {
    match id {
        Some("default-annotationset") if prefix == 's' => Some(77),
        Some(s) if s.starts_with(prefix) => s[1..].parse::<i64>().ok(),
        _ => None,
    }
}

fn value_ops(v: &DataValue, rng: &mut Rng) -> Option<Sx> {
    match v {
        DataValue::Null => Some(l(vec![a(0)])),
        DataValue::Bool(true) => Some(l(vec![a(2)])),
        DataValue::Bool(false) => Some(l(vec![a(3)])),
        DataValue::Int(i) => Some(match rng.below(4) {
            0 => l(vec![a(7), a(*i as i64)]),
            1 => l(vec![a(9), a(*i as i64)]),
            2 => l(vec![a(18), l(vec![a(5), a(*i as i64 + 1)])]),
            _ => l(vec![a(5), a(*i as i64)]),
        }),
        DataValue::String(s) => {
            let mut v = vec![a(4)];
            v.extend(s.chars().map(|c| a(c as u32 as i64)));
            Some(l(v))
        }
        _ => None,
    }
}

fn data_facts(d: &ResultItem<AnnotationData>, meta: bool, rng: &mut Rng, out: &mut Vec<Cst>, with_val: bool) {
    if let (Some(st), Some(kt)) = (tok(d.set().id(), 's'), tok(d.key().id(), 'k')) {
        out.push(Cst::Key(st, kt, meta));
        if let Some(o) = value_ops(d.value(), rng) {
            out.push(Cst::KeyVal(st, kt, o.clone(), meta));
            if with_val {
                out.push(Cst::Val(o));
            }
        }
    }
}

/// constraints that items of the store satisfy (up to 6 items per result type)
pub fn store_facts(store: &AnnotationStore, rng: &mut Rng) -> Vec<(i64, Vec<Cst>)> {
    let mut out: Vec<(i64, Vec<Cst>)> = Vec::new();
    let _ = guard(|| {
        let anns: Vec<_> = store.annotations().collect();
        for _ in 0..6.min(anns.len()) {
            let x = rng.pick(&anns).clone();
            let mut f = Vec::new();
            if let Some(t) = tok(x.id(), 'a') {
                f.push(Cst::Id(t));
            }
            for ts in x.textselections() {
                if let Some(t) = tok(ts.resource().id(), 'r') {
                    f.push(Cst::Res(VRef::Id(t), false));
                }
            }
            for r in x.resources_as_metadata() {
                if let Some(t) = tok(r.id(), 'r') {
                    f.push(Cst::Res(VRef::Id(t), true));
                }
            }
            for d in x.data() {
                if let Some(t) = tok(d.set().id(), 's') {
                    f.push(Cst::Set(VRef::Id(t), false));
                }
                data_facts(&d, false, rng, &mut f, true);
            }
            for y in x.annotations() {
                if let Some(t) = tok(y.id(), 'a') {
                    f.push(Cst::Ann(VRef::Id(t), false));
                }
            }
            for y in x.annotations_in_targets(AnnotationDepth::One) {
                if let Some(t) = tok(y.id(), 'a') {
                    f.push(Cst::Ann(VRef::Id(t), true));
                }
            }
            let parts: Vec<Vec<i64>> = x.textselections().map(|t| text_cps(t.begin(), t.end())).collect();
            if !parts.is_empty() {
                let mut joined = Vec::new();
                for p in parts.iter() {
                    if !joined.is_empty() {
                        joined.push(32);
                    }
                    joined.extend(p.iter());
                }
                f.push(Cst::Text(joined, false));
            }
            out.push((0, f));
        }
        let data: Vec<_> = store.data().collect();
        for _ in 0..6.min(data.len()) {
            let d = rng.pick(&data).clone();
            let mut f = Vec::new();
            if let Some(t) = tok(d.set().id(), 's') {
                f.push(Cst::Set(VRef::Id(t), false));
            }
            data_facts(&d, false, rng, &mut f, true);
            for y in d.annotations() {
                if let Some(t) = tok(y.id(), 'a') {
                    f.push(Cst::Ann(VRef::Id(t), false));
                }
            }
            for y in d.annotations_as_metadata() {
                if let Some(t) = tok(y.id(), 'a') {
                    f.push(Cst::Ann(VRef::Id(t), true));
                }
            }
            out.push((1, f));
        }
        let keys: Vec<_> = store.keys().collect();
        for _ in 0..4.min(keys.len()) {
            let k = rng.pick(&keys).clone();
            let mut f = Vec::new();
            if let Some(t) = tok(k.set().id(), 's') {
                f.push(Cst::Set(VRef::Id(t), false));
            }
            for y in k.annotations() {
                if let Some(t) = tok(y.id(), 'a') {
                    f.push(Cst::Ann(VRef::Id(t), false));
                }
            }
            for y in k.annotations_as_metadata() {
                if let Some(t) = tok(y.id(), 'a') {
                    f.push(Cst::Ann(VRef::Id(t), true));
                }
            }
            out.push((2, f));
        }
        for r in store.resources() {
            let mut f = Vec::new();
            if let Some(t) = tok(r.id(), 'r') {
                f.push(Cst::Id(t));
                f.push(Cst::Res(VRef::Id(t), false));
            }
            for x in r.annotations() {
                for d in x.data() {
                    data_facts(&d, false, rng, &mut f, false);
                }
            }
            for x in r.annotations_as_metadata() {
                for d in x.data() {
                    data_facts(&d, true, rng, &mut f, false);
                }
            }
            out.push((3, f));
        }
        for st in store.datasets() {
            let mut f = Vec::new();
            if let Some(t) = tok(st.id(), 's') {
                f.push(Cst::Id(t));
                f.push(Cst::Set(VRef::Id(t), rng.chance(1, 2)));
            }
            out.push((4, f));
        }
        for x in anns.iter().take(8) {
            for ts in x.textselections() {
                let mut f = Vec::new();
                if let Some(t) = tok(ts.resource().id(), 'r') {
                    f.push(Cst::Res(VRef::Id(t), false));
                }
                if let Some(t) = tok(x.id(), 'a') {
                    f.push(Cst::Ann(VRef::Id(t), false));
                }
                for d in x.data() {
                    data_facts(&d, false, rng, &mut f, true);
                }
                f.push(Cst::Text(text_cps(ts.begin(), ts.end()), false));
                out.push((5, f));
            }
        }
    });
    out
}
