//! C04: offsets (any mix of begin/end aligned cursors, against a resource or relative to
//! another annotation, any nesting depth) are accepted iff 0 <= begin <= end <= len, the text is
//! exactly those codepoints, and reported offsets are well-formed and re-resolve in all modes.
use crate::out::{guard, Out};
use crate::rng::Rng;
use crate::sx::{a, l, text as text_sx, Sx};
use stam::*;

pub struct Ctx {}

fn cursor_of(x: &Sx) -> Cursor {
    if x.nth(0).int() == 0 {
        Cursor::BeginAligned(x.nth(1).int().max(0) as usize)
    } else {
        Cursor::EndAligned(x.nth(1).int() as isize)
    }
}
fn offset_of(x: &Sx) -> Offset {
    Offset::new(cursor_of(x.nth(0)), cursor_of(x.nth(1)))
}
fn cursor_sx(c: &Cursor) -> (Sx, Sx) {
    match c {
        Cursor::BeginAligned(n) => (a(0), a(*n as i64)),
        Cursor::EndAligned(z) => (a(1), a(*z as i64)),
    }
}
pub fn cur(kind: i64, v: i64) -> Sx {
    l(vec![a(kind), a(v)])
}

const MODES: [OffsetMode; 4] = [OffsetMode::BeginBegin, OffsetMode::BeginEnd, OffsetMode::EndEnd, OffsetMode::EndBegin];

fn skipped() -> Sx {
    l(vec![a(9)])
}

impl Ctx {
    pub fn new() -> Self {
        Ctx {}
    }

    /// request: (text (offset ...)) ; level 0 is against the resource, level k against the annotation of level k-1.
    /// per level two sub-cases: [annotate path] (1 b e text reports) | (0) | (9) | (2), [FindText::textselection + Text::text_by_offset path] (1 b e text) | (0) | (9) | (2)
    pub fn exec(&self, req: &Sx) -> (Sx, Vec<Sx>, bool) {
        if let Sx::A(7) = req.nth(0) {
            return self.exec_pairs(req);
        }
        let text = req.nth(0).string();
        let offsets: Vec<Offset> = req.nth(1).list().iter().map(offset_of).collect();
        let mut outs: Vec<Sx> = Vec::new();
        let mut store = AnnotationStore::default()
            .with_id("c04")
            .with_resource(TextResourceBuilder::new().with_id("r").with_text(text.clone()))
            .unwrap();
        let mut failed = false;
        let mut accepted = 0;
        for (level, off) in offsets.iter().enumerate() {
            if failed {
                outs.push(skipped());
                outs.push(skipped());
                continue;
            }
            // path 2 first (read-only): FindText::textselection on the resource / the parent's selection
            // ... and Text::text_by_offset on the same receiver: accepted exactly when the selection is, with its text
            let p2 = guard(|| {
                if level == 0 {
                    let res = store.resource("r").unwrap();
                    (res.textselection(off).ok().map(|t| (t.begin(), t.end())), res.text_by_offset(off).ok().map(|s| s.to_string()))
                } else {
                    let parent = store.annotation(format!("A{}", level - 1).as_str()).unwrap();
                    let pts = parent.textselections().next().unwrap();
                    (pts.textselection(off).ok().map(|t| (t.begin(), t.end())), pts.text_by_offset(off).ok().map(|s| s.to_string()))
                }
            });
            // path 1: annotate
            let builder = if level == 0 {
                AnnotationBuilder::new()
                    .with_id(format!("A{}", level))
                    .with_target(SelectorBuilder::textselector("r", off.clone()))
                    .with_data("s", "k", "v")
            } else {
                AnnotationBuilder::new()
                    .with_id(format!("A{}", level))
                    .with_target(SelectorBuilder::annotationselector(format!("A{}", level - 1), Some(off.clone())))
                    .with_data("s", "k", "v")
            };
            let r = guard(|| store.annotate(builder).is_ok());
            match r {
                None => {
                    outs.push(l(vec![a(2)]));
                    failed = true;
                }
                Some(false) => {
                    outs.push(l(vec![a(0)]));
                    failed = true;
                }
                Some(true) => {
                    accepted += 1;
                    let o = guard(|| {
                        let ann = store.annotation(format!("A{}", level).as_str()).unwrap();
                        let ts = ann.textselections().next().unwrap();
                        let (b, e) = (ts.begin(), ts.end());
                        let txt: String = ann.text().collect::<Vec<&str>>().join("");
                        let mut reports = Vec::new();
                        for m in MODES.iter() {
                            let reported = ann.as_ref().target().offset_with_mode(&store, Some(*m));
                            match reported {
                                None => reports.push(l(vec![a(-1)])),
                                Some(ro) => {
                                    let (bk, bv) = cursor_sx(&ro.begin);
                                    let (ek, ev) = cursor_sx(&ro.end);
                                    // re-resolve the reported offset
                                    let rr = if level == 0 {
                                        store.resource("r").unwrap().textselection(&ro).ok().map(|t| (t.begin(), t.end()))
                                    } else {
                                        let parent = store.annotation(format!("A{}", level - 1).as_str()).unwrap();
                                        let pts = parent.textselections().next().unwrap();
                                        pts.textselection(&ro).ok().map(|t| (t.begin(), t.end()))
                                    };
                                    let (rb, re) = rr.map(|(x, y)| (x as i64, y as i64)).unwrap_or((-1, -1));
                                    reports.push(l(vec![bk, bv, ek, ev, a(rb), a(re)]));
                                }
                            }
                        }
                        l(vec![a(1), a(b as i64), a(e as i64), text_sx(&txt), l(reports)])
                    });
                    outs.push(o.unwrap_or_else(|| l(vec![a(2)])));
                }
            }
            outs.push(match p2 {
                None => l(vec![a(2)]),
                Some((None, None)) => l(vec![a(0)]),
                Some((Some((b, e)), Some(txt))) => l(vec![a(1), a(b as i64), a(e as i64), text_sx(&txt)]),
                // the two entry points disagree about acceptance
                Some((Some((b, e)), None)) => l(vec![a(3), a(b as i64), a(e as i64)]),
                Some((None, Some(txt))) => l(vec![a(4), text_sx(&txt)]),
            });
        }
        (req.clone(), outs, accepted > 0)
    }
}

impl Ctx {
    /// request (7 len): ResultTextSelection::relative_offset (and through it TextSelection::relative_offset) for EVERY pair of ranges
    /// (b, e), (pb, pe) over a text of that length (embedded or not, overlapping, disjoint, either
    /// side), in the four modes: one sub-case per pair = four reports (or (-1) for None, (2) for a panic)
    fn exec_pairs(&self, req: &Sx) -> (Sx, Vec<Sx>, bool) {
        let len = req.nth(1).int() as usize;
        let text: String = std::iter::repeat('x').take(len).collect();
        let store = AnnotationStore::default().with_id("c04p").with_resource(TextResourceBuilder::new().with_id("r").with_text(text)).unwrap();
        let res = store.resource("r").unwrap();
        let mut outs = Vec::new();
        for b in 0..=len {
            for e in b..=len {
                for pb in 0..=len {
                    for pe in pb..=len {
                        let mut reports = Vec::new();
                        for m in MODES.iter() {
                            let r = guard(|| {
                                let t = res.textselection(&Offset::simple(b, e)).unwrap();
                                let c = res.textselection(&Offset::simple(pb, pe)).unwrap();
                                t.relative_offset(&c, *m).map(|ro| {
                                    let rr = c.textselection(&ro).ok().map(|t| (t.begin() as i64, t.end() as i64)).unwrap_or((-1, -1));
                                    (ro, rr)
                                })
                            });
                            reports.push(match r {
                                None => l(vec![a(2)]),
                                Some(None) => l(vec![a(-1)]),
                                Some(Some((ro, (rb, re)))) => {
                                    let (bk, bv) = cursor_sx(&ro.begin);
                                    let (ek, ev) = cursor_sx(&ro.end);
                                    l(vec![bk, bv, ek, ev, a(rb), a(re)])
                                }
                            });
                        }
                        outs.push(l(reports));
                    }
                }
            }
        }
        (req.clone(), outs, true)
    }
}

fn all_cursors(range: i64) -> Vec<Sx> {
    let mut v = Vec::new();
    for n in 0..=range {
        v.push(cur(0, n));
    }
    for z in -range..=range {
        v.push(cur(1, z));
    }
    v
}

pub fn generate(out: &mut Out, tier: &str, seed: u64) {
    let thorough = tier == "thorough";
    let ctx = Ctx::new();
    let emit = |out: &mut Out, req: Sx, key: &str| {
        let (i, o, nt) = ctx.exec(&req);
        out.case(&i, &o, nt, &req);
        out.count(key);
    };
    // texts of length 0..=5 over 1-, 2-, 3-, 4-byte characters
    let texts: Vec<&str> = if thorough {
        vec!["", "a", "\u{e9}", "a\u{20ac}", "\u{1f600}b", "a\u{e9}\u{20ac}", "x\u{1f600}\u{e9}y", "\u{20ac}a\u{1f600}b\u{e9}", "abcdef\u{e9}"]
    } else {
        vec!["", "a", "a\u{20ac}", "a\u{e9}\u{20ac}", "x\u{1f600}\u{e9}y", "\u{20ac}a\u{1f600}b\u{e9}"]
    };
    let range = if thorough { 9 } else { 7 };
    let cursors = all_cursors(range);
    // relative_offset on every pair of ranges, embedded or not
    for len in 0..=(if thorough { 9 } else { 6 }) {
        emit(out, l(vec![a(7), a(len)]), "all_pairs_of_ranges");
    }
    // depth 1: every pair of cursors
    for t in &texts {
        for cb in &cursors {
            for ce in &cursors {
                let off = l(vec![cb.clone(), ce.clone()]);
                emit(out, l(vec![text_sx(t), l(vec![off])]), "depth1");
            }
        }
    }
    // depth 2: a few parents, every pair of child cursors
    let small = all_cursors(if thorough { 6 } else { 4 });
    for t in texts.iter().filter(|t| t.chars().count() >= 3) {
        let n = t.chars().count() as i64;
        let parents = vec![
            l(vec![cur(0, 1), cur(0, n - 1)]),
            l(vec![cur(0, 0), cur(1, -1)]),
            l(vec![cur(1, -(n - 1)), cur(1, 0)]),
            l(vec![cur(0, 1), cur(0, 1)]),
        ];
        for p in &parents {
            for cb in &small {
                for ce in &small {
                    let off = l(vec![cb.clone(), ce.clone()]);
                    emit(out, l(vec![text_sx(t), l(vec![p.clone(), off])]), "depth2");
                }
            }
        }
    }
    // depth 3..4: random chains, biased towards valid offsets
    let mut rng = Rng::new(seed);
    let nrand = if thorough { 1500000 } else { 12000 };
    let long = "He\u{e9}llo w\u{f6}rld \u{20ac}5 \u{1f600} end";
    for _ in 0..nrand {
        let t = if rng.chance(1, 3) { long } else { *rng.pick(&texts) };
        let n = t.chars().count() as i64;
        let depth = 2 + rng.below(3);
        let mut len = n;
        let mut chain = Vec::new();
        for _ in 0..depth {
            let valid = rng.chance(4, 5);
            let (b, e) = if valid && len >= 0 {
                let b = rng.range(0, len);
                let e = rng.range(b, len);
                (b, e)
            } else {
                (rng.range(0, len + 2), rng.range(0, len + 2))
            };
            let cb = if rng.chance(1, 2) { cur(0, b) } else { cur(1, b - len + if valid { 0 } else { rng.range(0, 1) * (len + 1) }) };
            let ce = if rng.chance(1, 2) { cur(0, e) } else { cur(1, e - len) };
            chain.push(l(vec![cb, ce]));
            len = (e - b).max(0);
        }
        emit(out, l(vec![text_sx(t), l(chain)]), "random_chain");
    }
}

pub const RULE: &str = "exhaustive at depth 1: texts of length 0..=5 (thorough ..=7) over 1-4 byte characters x every pair of cursors (BeginAligned 0..=7, EndAligned -7..=7: out-of-range, inverted, zero-width, positive end-aligned included) through annotate() with a TextSelector and through FindText::textselection; depth 2: four parents x every pair of cursors in -4..=4 through AnnotationSelector offsets and ResultTextSelection::textselection; depth 2-4: seeded random chains (80% valid); every accepted annotation is read back (range, text) and its offset reported in all four OffsetModes via Selector::offset_with_mode and re-resolved. Non-trivial = at least one level accepted; distinct = distinct request lines.";

pub const EXHAUSTIVE: bool = true;
