//! C01: after every operation of a history, every reverse lookup of every item.
use crate::out::Out;
use crate::rng::Rng;
use crate::storegen::{apply, gen_history, new_store, obs_adaptors, obs_counts, obs_forward, obs_stored, observe, GenCfg};
use crate::sx::{l, Sx};

pub struct Ctx {}

impl Ctx {
    pub fn new() -> Self {
        crate::storegen::BARE_KEYS.store(true, std::sync::atomic::Ordering::Relaxed);
        Ctx {}
    }
    /// request = list of operations. The model is given, besides the operations, what the
    /// implementation stores for every complex target after every operation (the subselector
    /// vector with its internal ranged selectors) and what iterating over it yields in stored
    /// order: the model compresses that list itself and expands the stored form itself.
    pub fn exec(&self, req: &Sx) -> (Sx, Vec<Sx>, bool) {
        let mut store = new_store();
        let mut outs = Vec::new();
        let mut forms = Vec::new();
        let mut nontrivial = false;
        for op in req.list() {
            let r = apply(&mut store, op);
            if op.nth(0).int() >= 3 && r.nth(0).int() == 1 {
                nontrivial = true;
            }
            outs.push(r);
            outs.extend(observe(&store));
            outs.push(obs_counts(&store));
            outs.push(obs_forward(&store));
            outs.push(obs_adaptors(&store));
            let mut step = Vec::new();
            for h in 0..store.annotations_len() {
                if let Some((stored, expanded, kind)) = obs_stored(&store, h) {
                    step.push(l(vec![crate::sx::a(h as i64), stored.clone(), expanded.clone(), crate::sx::a(kind)]));
                    outs.push(stored);
                    outs.push(expanded);
                    // the members of Multi/Composite selectors are kept in the order of the model's comparator
                    outs.push(crate::sx::a(1));
                }
            }
            forms.push(l(step));
        }
        (l(vec![req.clone(), l(forms)]), outs, nontrivial)
    }
}

/// distribution of the stored forms of complex targets (counted after every operation)
fn count_forms(out: &mut Out, i2: &Sx) {
    for step in i2.nth(1).list() {
        for e in step.list() {
            out.count("stored_complex_target");
            for c in e.nth(1).list() {
                match (c.nth(0).int(), c.nth(3).int()) {
                    (7, _) => out.count("stored_ranged_text"),
                    (8, 0) => out.count("stored_ranged_annotation"),
                    (8, _) => out.count("stored_ranged_annotation_with_text"),
                    _ => {}
                }
            }
        }
    }
}

/// deterministic family: complex selectors over two resources whose text-selection handles line up
/// with the internal range compression (handles n, n+1 in one resource followed by n+2 / n+1 / n in
/// another), for every complex kind and several member orders; then lookups and removals
fn alignment_family(out: &mut Out, ctx: &Ctx) {
    use crate::sx::a;
    let r = |t: i64| l(vec![a(0), a(t)]);
    let text = |res: i64, b: i64, e: i64| l(vec![a(0), r(res), l(vec![a(0), a(b)]), l(vec![a(0), a(e)])]);
    for pre_x in 0..3i64 {
        for pre_y in 0..6i64 {
            for kind in 1..=3i64 {
                for order in 0..3 {
                    let mut ops = vec![l(vec![a(0), a(0), a(8)]), l(vec![a(0), a(1), a(8)])];
                    for i in 0..pre_x {
                        ops.push(l(vec![a(3), a(-1), text(0, 7 - i, 8), l(vec![])]));
                    }
                    for i in 0..pre_y {
                        ops.push(l(vec![a(3), a(-1), text(1, i, i + 1), l(vec![])]));
                    }
                    let m = vec![text(0, 0, 1), text(0, 1, 2), text(1, 6, 8)];
                    let members = match order {
                        0 => vec![m[0].clone(), m[1].clone(), m[2].clone()],
                        1 => vec![m[2].clone(), m[0].clone(), m[1].clone()],
                        _ => vec![m[0].clone(), m[2].clone(), m[1].clone()],
                    };
                    let mut sel = vec![a(7), a(kind)];
                    sel.extend(members);
                    ops.push(l(vec![a(3), a(5), l(sel), l(vec![])]));
                    ops.push(l(vec![a(7), r(1)])); // remove the second resource
                    ops.push(l(vec![a(7), r(0)]));
                    let req = l(ops);
                    let (i2, o, nt) = ctx.exec(&req);
                    count_forms(out, &i2);
                    out.count("alignment_family");
                    out.case(&i2, &o, nt, &req);
                }
            }
        }
    }
}

/// deterministic family: three annotations on adjacent text (consecutive handles) and a complex
/// selector over them, each member without offset, covering the whole target in one of three
/// alignments, or only a part of it: the internal RangedAnnotationSelector with and without text
/// triggers, extends and just misses; every complex kind, two member orders; then an annotation on
/// the complex one, removal of a member's target, of the resource
fn withtext_family(out: &mut Out, ctx: &Ctx) {
    use crate::sx::a;
    let r = |t: i64| l(vec![a(0), a(t)]);
    let h = |x: i64| l(vec![a(1), a(x)]);
    let text = |b: i64, e: i64| l(vec![a(0), r(0), l(vec![a(0), a(b)]), l(vec![a(0), a(e)])]);
    let member = |x: i64, style: i64| match style {
        0 => l(vec![a(1), h(x)]),
        1 => l(vec![a(2), h(x), l(vec![a(0), a(0)]), l(vec![a(1), a(0)])]),
        2 => l(vec![a(2), h(x), l(vec![a(0), a(0)]), l(vec![a(0), a(2)])]),
        3 => l(vec![a(2), h(x), l(vec![a(1), a(-2)]), l(vec![a(1), a(0)])]),
        4 => l(vec![a(2), h(x), l(vec![a(0), a(1)]), l(vec![a(1), a(0)])]),
        _ => l(vec![a(2), h(x), l(vec![a(0), a(0)]), l(vec![a(1), a(-1)])]),
    };
    for styles in 0..216i64 {
        for kind in 1..=3i64 {
            for order in 0..2 {
                let mut ops = vec![l(vec![a(0), a(0), a(8)])];
                for i in 0..3 {
                    ops.push(l(vec![a(3), a(-1), text(2 * i, 2 * i + 2), l(vec![])]));
                }
                let mut m: Vec<Sx> = (0..3).map(|i| member(i, (styles / 6i64.pow(i as u32)) % 6)).collect();
                if order == 1 {
                    m.reverse();
                }
                let mut sel = vec![a(7), a(kind)];
                sel.extend(m);
                ops.push(l(vec![a(3), a(5), l(sel), l(vec![])]));
                ops.push(l(vec![a(3), a(-1), l(vec![a(1), h(3)]), l(vec![])]));
                ops.push(l(vec![a(4), h((styles % 3) as i64)]));
                ops.push(l(vec![a(7), r(0)]));
                let req = l(ops);
                let (i2, o, nt) = ctx.exec(&req);
                count_forms(out, &i2);
                out.count("withtext_family");
                out.case(&i2, &o, nt, &req);
            }
        }
    }
}

/// deterministic family: one annotation whose complex selector names TWO items of a kind (two keys,
/// two data items, two resources, two datasets, two annotations, a key and a data item), plus a
/// simple annotation on each; one of the two items is removed (the complex annotation goes with it
/// and must unindex itself from the entry of the OTHER item too); then new annotations on the
/// surviving item, and its removal. Every complex kind, either member order, either item removed,
/// strict and non-strict.
fn twopath_family(out: &mut Out, ctx: &Ctx) {
    use crate::sx::a;
    let r = |t: i64| l(vec![a(0), a(t)]);
    let text = |res: i64, b: i64, e: i64| l(vec![a(0), r(res), l(vec![a(0), a(b)]), l(vec![a(0), a(e)])]);
    let data = |set: i64, id: i64, key: i64, v: i64| l(vec![r(set), r(id), r(key), l(vec![a(2), a(v)])]);
    let ann = |target: Sx| l(vec![a(3), a(-1), target, l(vec![])]);
    for pair in 0..6 {
        for kind in 1..=3i64 {
            for order in 0..2 {
                for which in 0..2usize {
                    for strict in 0..2i64 {
                        // setup, the two members, the removal of member i, a target on member i
                        let mut ops = vec![l(vec![a(0), a(0), a(6)]), l(vec![a(0), a(1), a(6)]), l(vec![a(1), a(0)]), l(vec![a(1), a(1)])];
                        ops.push(l(vec![a(2), data(0, 0, 0, 1)]));
                        ops.push(l(vec![a(2), data(0, 1, 1, 2)]));
                        ops.push(l(vec![a(2), data(1, 2, 0, 3)]));
                        ops.push(ann(text(0, 0, 2)));
                        ops.push(ann(text(1, 1, 3)));
                        let key = |s: i64, k: i64| l(vec![a(5), r(s), r(k)]);
                        let dat = |s: i64, d: i64| l(vec![a(6), r(s), r(d)]);
                        let (m, rm): (Vec<Sx>, Vec<Sx>) = match pair {
                            0 => (vec![key(0, 0), key(0, 1)], vec![l(vec![a(6), r(0), r(0), a(strict)]), l(vec![a(6), r(0), r(1), a(strict)])]),
                            1 => (vec![dat(0, 0), dat(0, 1)], vec![l(vec![a(5), r(0), r(0), a(strict)]), l(vec![a(5), r(0), r(1), a(strict)])]),
                            2 => (vec![l(vec![a(3), r(0)]), l(vec![a(3), r(1)])], vec![l(vec![a(7), r(0)]), l(vec![a(7), r(1)])]),
                            3 => (vec![l(vec![a(4), r(0)]), l(vec![a(4), r(1)])], vec![l(vec![a(8), r(0)]), l(vec![a(8), r(1)])]),
                            4 => (
                                vec![l(vec![a(1), l(vec![a(1), a(0)])]), l(vec![a(1), l(vec![a(1), a(1)])])],
                                vec![l(vec![a(4), l(vec![a(1), a(0)])]), l(vec![a(4), l(vec![a(1), a(1)])])],
                            ),
                            _ => (vec![key(0, 0), dat(1, 2)], vec![l(vec![a(6), r(0), r(0), a(strict)]), l(vec![a(5), r(1), r(2), a(strict)])]),
                        };
                        for t in &m {
                            ops.push(ann(t.clone()));
                        }
                        let mut sel = vec![a(7), a(kind)];
                        if order == 0 {
                            sel.extend(m.iter().cloned());
                        } else {
                            sel.extend(m.iter().rev().cloned());
                        }
                        ops.push(l(vec![a(3), a(5), l(sel), l(vec![])]));
                        ops.push(rm[which].clone());
                        ops.push(ann(m[1 - which].clone()));
                        ops.push(ann(m[1 - which].clone()));
                        ops.push(rm[1 - which].clone());
                        let req = l(ops);
                        let (i2, o, nt) = ctx.exec(&req);
                        out.count("twopath_family");
                        out.case(&i2, &o, nt, &req);
                    }
                }
            }
        }
    }
}

pub fn generate(out: &mut Out, tier: &str, seed: u64) {
    let thorough = tier == "thorough";
    let ctx = Ctx::new();
    alignment_family(out, &ctx);
    twopath_family(out, &ctx);
    withtext_family(out, &ctx);
    let mut rng = Rng::new(seed);
    let n = if thorough { 400000 } else { 3000 };
    for i in 0..n {
        let cfg = GenCfg { max_ops: if i % 4 == 0 { 40 } else { 14 }, removals: if i % 3 == 0 { 0 } else { 4 }, invalid: 12, values: false };
        let mut ops = gen_history(&mut rng, &cfg);
        if i % 3 == 1 {
            // shrink_to_fit (performance only) somewhere in the history: nothing observable may change
            for _ in 0..1 + rng.below(2) {
                let at = rng.below(ops.len() + 1);
                ops.insert(at, l(vec![crate::sx::a(14)]));
            }
        }
        for op in &ops {
            out.count(match op.nth(0).int() {
                0 => "op_add_resource",
                1 => "op_add_dataset",
                2 => "op_insert_data",
                3 => "op_annotate",
                4 => "op_remove_annotation",
                5 => "op_remove_data",
                6 => "op_remove_key",
                7 => "op_remove_resource",
                14 => "op_shrink_to_fit",
                _ => "op_remove_dataset",
            });
            if op.nth(0).int() == 3 {
                let t = op.nth(2);
                out.count(match t {
                    Sx::A(_) => "target_none",
                    _ => match t.nth(0).int() {
                        0 => "target_text",
                        1 => "target_annotation",
                        2 => "target_annotation_offset",
                        3 => "target_resource",
                        4 => "target_dataset",
                        5 => "target_key",
                        6 => "target_data",
                        _ => match t.nth(1).int() {
                            1 => "target_multi",
                            2 => "target_composite",
                            _ => "target_directional",
                        },
                    },
                });
            }
        }
        let req = l(ops);
        let (i2, o, nt) = ctx.exec(&req);
        out.count_n("history_len", req.list().len() as u64);
        count_forms(out, &i2);
        out.case(&i2, &o, nt, &req);
    }
}

pub const RULE: &str = "a deterministic family of 144 histories in which a complex selector names two items of one kind (keys, data, resources, datasets, annotations, key + data), one of them is removed, new annotations go on the other, which is then removed too (every complex kind, member order, removed member, strict and not); a deterministic family of 1296 histories with a complex selector over three annotations on adjacent text, every member without offset / covering the whole target in three alignments / covering a part at either end (the internal RangedAnnotationSelector with and without text triggers, extends, just misses; every complex kind, two orders; then an annotation on it and removals); for every complex target after every operation the stored subselector vector and its expansion, compared with the model's own compression and expansion; a deterministic family of 162 histories in which the text-selection handles of two resources line up with the internal range compression of complex selectors (every complex kind, three member orders, then removal of both resources); seeded random histories of 1..14 (every 4th: 1..40) operations over <=6 resources of 0..8 codepoints, <=4 datasets, all nine selector kinds (text, annotation with and without relative offset, resource, dataset, key, data, Multi/Composite/Directional with 1..4 members incl. consecutive ranges that trigger and just miss range compression), references by id and by handle, shrink_to_fit calls in a third of the histories, data with and without ids, the same data twice, duplicate ids, one in 12 references invalid, removals of annotations/data (strict and not)/keys/resources/datasets (two thirds of the histories); after EVERY operation the outcome and, for every annotation, resource (with every known text selection), dataset (with every key and data item) slot, all reverse lookups through the public API, plus id resolution of 10 tokens per kind the counting shortcuts (annotations_len / annotations_count of every text selection, key and data item) and, for every annotation, its targets by kind through resources(), resources_as_metadata(), datasets(), data_as_metadata(), keys_as_metadata(), annotations_in_targets(One / Max). One evaluation = one item record or operation outcome; non-trivial = history with a successful annotate/removal; distinct = distinct histories.";
pub const EXHAUSTIVE: bool = false;
