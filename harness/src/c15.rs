//! C15: STAM CSV round trip.  The final store of a history is saved as STAM CSV (store manifest,
//! annotation table, one file per data set, one text file per resource), the annotation rows
//! are read back from the file as text, the store is loaded again with from_file and described
//! free of handles (coq/Spec/CsvSpec.v `content`).
use crate::out::{guard, Out};
use crate::rng::Rng;
use crate::storegen::{apply, new_store, GenCfg, Shadow, DEFAULT_SET_TOKEN};
use crate::sx::{a, l, text, Sx};
use stam::*;

pub const TEMP_BASE: i64 = 200;

pub struct Ctx {
    dir: String,
}

/// token of a public id: plain letter + decimal, the temporary form "!X<n>" as TEMP_BASE + n
fn tok(id: Option<&str>, plain: char, temp: char) -> Sx {
    match id {
        None => Sx::A(-1),
        Some("default-annotationset") if plain == 's' => Sx::A(DEFAULT_SET_TOKEN),
        Some(s) => {
            let mut cs = s.chars();
            match cs.next() {
                Some(c) if c == plain => s[1..].parse::<i64>().map(Sx::A).unwrap_or(Sx::A(-3)),
                Some('!') if cs.next() == Some(temp) => s[2..].parse::<i64>().map(|n| Sx::A(TEMP_BASE + n)).unwrap_or(Sx::A(-3)),
                _ => Sx::A(-3),
            }
        }
    }
}

/// number of live handles below h
fn rank(live: &[usize], h: usize) -> i64 {
    live.iter().filter(|x| **x < h).count() as i64
}

struct Live {
    res: Vec<usize>,
    sets: Vec<usize>,
    anns: Vec<usize>,
    keys: Vec<Vec<usize>>, // by set handle
    data: Vec<Vec<usize>>, // by set handle
}

fn live(store: &AnnotationStore) -> Live {
    let res = (0..store.resources_len()).filter(|h| store.resource(TextResourceHandle::new(*h)).is_some()).collect();
    let anns = (0..store.annotations_len()).filter(|h| store.annotation(AnnotationHandle::new(*h)).is_some()).collect();
    let mut sets = Vec::new();
    let mut keys = Vec::new();
    let mut data = Vec::new();
    for h in 0..store.datasets_len() {
        match store.dataset(AnnotationDataSetHandle::new(h)) {
            Some(set) => {
                sets.push(h);
                keys.push((0..set.as_ref().keys_len()).filter(|k| set.key(DataKeyHandle::new(*k)).is_some()).collect());
                data.push((0..set.as_ref().data_len()).filter(|x| set.annotationdata(AnnotationDataHandle::new(*x)).is_some()).collect());
            }
            None => {
                keys.push(Vec::new());
                data.push(Vec::new());
            }
        }
    }
    Live { res, sets, anns, keys, data }
}

fn range_of(store: &AnnotationStore, r: TextResourceHandle, t: TextSelectionHandle) -> (i64, i64, String) {
    match store.resource(r) {
        Some(res) => match res.textselection_by_handle(t) {
            Ok(ts) => (ts.begin() as i64, ts.end() as i64, ts.text().to_string()),
            Err(_) => (0, 0, String::new()),
        },
        None => (0, 0, String::new()),
    }
}

/// the leaves of a target as the store model describes them (kind, ranks, absolute range)
fn leaves(store: &AnnotationStore, lv: &Live, ann: &Annotation) -> (i64, Vec<Vec<i64>>) {
    let target = ann.target();
    let kind = match target.kind() {
        SelectorKind::MultiSelector => 1,
        SelectorKind::CompositeSelector => 2,
        SelectorKind::DirectionalSelector => 3,
        _ => 0,
    };
    let mut out: Vec<Vec<i64>> = Vec::new();
    let sub = |v: &Vec<Vec<usize>>, d: usize, x: usize| -> i64 { v.get(d).map(|l| rank(l, x)).unwrap_or(0) };
    for sel in target.iter(store, false) {
        match sel.as_ref() {
            Selector::TextSelector(r, t, _) => {
                let (b, e, _) = range_of(store, *r, *t);
                out.push(vec![0, rank(&lv.res, r.as_usize()), b, e, 0]);
            }
            Selector::AnnotationSelector(x, Some((r, t, _))) => {
                let (b, e, _) = range_of(store, *r, *t);
                out.push(vec![1, rank(&lv.res, r.as_usize()), b, e, rank(&lv.anns, x.as_usize())]);
            }
            Selector::AnnotationSelector(x, None) => out.push(vec![2, rank(&lv.anns, x.as_usize()), 0, 0, 0]),
            Selector::ResourceSelector(r) => out.push(vec![3, rank(&lv.res, r.as_usize()), 0, 0, 0]),
            Selector::DataSetSelector(d) => out.push(vec![4, rank(&lv.sets, d.as_usize()), 0, 0, 0]),
            Selector::DataKeySelector(d, k) => out.push(vec![5, rank(&lv.sets, d.as_usize()), sub(&lv.keys, d.as_usize(), k.as_usize()), 0, 0]),
            Selector::AnnotationDataSelector(d, x) => out.push(vec![6, rank(&lv.sets, d.as_usize()), sub(&lv.data, d.as_usize(), x.as_usize()), 0, 0]),
            _ => {}
        }
    }
    if kind != 3 {
        out.sort();
    }
    (kind, out)
}

/// coq/Spec/CsvSpec.v content
pub fn content(store: &AnnotationStore) -> Sx {
    let lv = live(store);
    let mut ress = Vec::new();
    for h in &lv.res {
        let r = store.resource(TextResourceHandle::new(*h)).unwrap();
        ress.push(l(vec![tok(r.id(), 'r', 'R'), a(r.textlen() as i64)]));
    }
    let mut sets = Vec::new();
    for h in &lv.sets {
        let set = store.dataset(AnnotationDataSetHandle::new(*h)).unwrap();
        let keys: Vec<Sx> = lv.keys[*h].iter().map(|k| tok(set.key(DataKeyHandle::new(*k)).unwrap().id(), 'k', 'K')).collect();
        let data: Vec<Sx> = lv.data[*h]
            .iter()
            .map(|x| {
                let d = set.annotationdata(AnnotationDataHandle::new(*x)).unwrap();
                l(vec![tok(d.id(), 'd', 'D'), a(rank(&lv.keys[*h], d.key().handle().as_usize())), text(&format!("{}", d.value()))])
            })
            .collect();
        sets.push(l(vec![tok(set.id(), 's', 'S'), l(keys), l(data)]));
    }
    let mut anns = Vec::new();
    for h in &lv.anns {
        let ann = store.annotation(AnnotationHandle::new(*h)).unwrap();
        let (kind, lvs) = leaves(store, &lv, ann.as_ref());
        let data: Vec<Sx> = ann
            .as_ref()
            .raw_data()
            .iter()
            .map(|(s, d)| l(vec![a(rank(&lv.sets, s.as_usize())), a(lv.data.get(s.as_usize()).map(|v| rank(v, d.as_usize())).unwrap_or(0))]))
            .collect();
        anns.push(l(vec![
            tok(ann.id(), 'a', 'A'),
            l(data),
            a(kind),
            l(lvs.into_iter().map(|v| l(v.into_iter().map(a).collect())).collect()),
        ]));
    }
    l(vec![l(ress), l(sets), l(anns)])
}

/// per live annotation the text it addresses directly: (resource id, begin, end, text); and the
/// texts of the resources
fn texts(store: &AnnotationStore) -> (Vec<(String, String)>, Vec<Vec<(String, i64, i64, String)>>) {
    let lv = live(store);
    let ress = lv
        .res
        .iter()
        .map(|h| {
            let r = store.resource(TextResourceHandle::new(*h)).unwrap();
            (r.id().unwrap_or("").to_string(), r.text().to_string())
        })
        .collect();
    let mut anns = Vec::new();
    for h in &lv.anns {
        let ann = store.annotation(AnnotationHandle::new(*h)).unwrap();
        let directional = ann.as_ref().target().kind() == SelectorKind::DirectionalSelector;
        let mut v = Vec::new();
        for sel in ann.as_ref().target().iter(store, false) {
            match sel.as_ref() {
                Selector::TextSelector(r, t, _) | Selector::AnnotationSelector(_, Some((r, t, _))) => {
                    let (b, e, s) = range_of(store, *r, *t);
                    let rid = store.resource(*r).and_then(|x| x.id().map(|s| s.to_string())).unwrap_or_default();
                    v.push((rid, b, e, s));
                }
                _ => {}
            }
        }
        if !directional {
            v.sort();
        }
        anns.push(v);
    }
    (ress, anns)
}

/// the annotation table as text: (1 row...) with row = (id data sets (member...)), member = the
/// eight target columns of one slot; the members after the first are sorted unless the selector
/// is directional.  The identifiers of the harness need no CSV quoting.
fn rows_of_file(path: &str) -> Sx {
    let s = match std::fs::read_to_string(path) {
        Ok(s) => s,
        Err(_) => return l(vec![a(0)]),
    };
    let mut rows = vec![a(1)];
    for (i, line) in s.lines().enumerate() {
        if i == 0 || line.is_empty() {
            continue;
        }
        let f: Vec<&str> = line.split(',').collect();
        if f.len() != 11 || line.contains('"') {
            rows.push(l(vec![a(-3)]));
            continue;
        }
        // file order: Id, AnnotationData, AnnotationDataSet, SelectorType, TargetResource, TargetAnnotation,
        // TargetDataSet, BeginOffset, EndOffset, TargetKey, TargetData
        let cols: Vec<Vec<&str>> = [3usize, 4, 5, 6, 7, 8, 9, 10].iter().map(|c| f[*c].split(';').collect()).collect();
        let n = cols.iter().map(|c| c.len()).min().unwrap_or(0);
        let mut members: Vec<Vec<String>> = (0..n).map(|j| cols.iter().map(|c| c[j].to_string()).collect()).collect();
        if n > 1 && members[0][0] != "DirectionalSelector" {
            // the order of the model: by scalar values, a prefix first
            members[1..].sort_by(|x, y| {
                let kx: Vec<Vec<u32>> = x.iter().map(|s| s.chars().map(|c| c as u32).collect()).collect();
                let ky: Vec<Vec<u32>> = y.iter().map(|s| s.chars().map(|c| c as u32).collect()).collect();
                kx.cmp(&ky)
            });
        }
        rows.push(l(vec![text(f[0]), text(f[1]), text(f[2]), l(members.iter().map(|m| l(m.iter().map(|s| text(s)).collect())).collect())]));
    }
    l(rows)
}

impl Ctx {
    pub fn new() -> Self {
        let dir = format!("/verif/.cache/work/c15/{}", std::process::id());
        let _ = std::fs::create_dir_all(&dir);
        Ctx { dir }
    }

    /// request = list of operations (a history), or (9 ops1 ops2): ops1, save as STAM CSV, the
    /// modifications ops2 on the store in memory, save again in the same place
    pub fn exec(&self, req: &Sx) -> (Sx, Vec<Sx>, bool) {
        let mut store = new_store();
        let mut nontrivial = false;
        let _ = std::fs::remove_dir_all(&self.dir);
        let _ = std::fs::create_dir_all(&self.dir);
        let main = format!("{}/x.store.stam.csv", self.dir);
        let two_phase = matches!(req.nth(0), Sx::A(_)) && !req.list().is_empty();
        let mut first_save_ok = true;
        if two_phase {
            for op in req.nth(1).list() {
                let r = apply(&mut store, op);
                if op.nth(0).int() == 3 && r.nth(0).int() == 1 {
                    nontrivial = true;
                }
            }
            first_save_ok = matches!(
                guard(|| {
                    store.set_filename(&main);
                    store.save()
                }),
                Some(Ok(()))
            );
            for op in req.nth(2).list() {
                if op.nth(0).int() == 9 {
                    // a key inserted on its own
                    let set = crate::storegen::sid(op.nth(1).int());
                    let key = crate::storegen::kid(op.nth(2).int());
                    let _ = guard(|| {
                        let ds: Result<&mut AnnotationDataSet, StamError> = store.get_mut(set.as_str());
                        ds.and_then(|ds| ds.insert(DataKey::new(key)))
                    });
                    nontrivial = true;
                } else {
                    let _ = apply(&mut store, op);
                }
            }
        } else {
            for op in req.list() {
                let r = apply(&mut store, op);
                if op.nth(0).int() == 3 && r.nth(0).int() == 1 {
                    nontrivial = true;
                }
            }
        }

        let original = guard(|| content(&store)).unwrap_or_else(|| l(vec![a(-1)]));
        let saved = if !first_save_ok {
            Some(Err(StamError::OtherError("the first save failed")))
        } else if two_phase {
            // the second save, in the same place
            guard(|| store.save())
        } else {
            guard(|| {
                store.set_filename(&main);
                store.save()
            })
        };
        let rows = match &saved {
            None => l(vec![a(-1)]),
            Some(Err(_)) => l(vec![a(0)]),
            Some(Ok(())) => rows_of_file(&format!("{}/x.annotations.stam.csv", self.dir)),
        };
        let mut same_text = a(1);
        let reloaded = match &saved {
            Some(Ok(())) => match guard(|| AnnotationStore::from_file(&main, Config::default().with_generate_ids(false).with_debug(false))) {
                None => l(vec![a(-1)]),
                Some(Err(_)) => l(vec![a(0)]),
                Some(Ok(s2)) => {
                    same_text = match guard(|| texts(&s2) == texts(&store)) {
                        Some(true) => a(1),
                        Some(false) => a(0),
                        None => a(-1),
                    };
                    guard(|| l(vec![a(1), content(&s2)])).unwrap_or_else(|| l(vec![a(-1)]))
                }
            },
            _ => l(vec![a(-2)]),
        };
        (req.clone(), vec![original, rows, reloaded, same_text, a(1)], nontrivial)
    }
}

impl Drop for Ctx {
    fn drop(&mut self) {
        let _ = std::fs::remove_dir_all(&self.dir);
    }
}

/// give every annotation and data item of the operation a public identifier
fn complete_ids(op: &Sx, next: &mut i64) -> Sx {
    let fresh = |next: &mut i64| -> i64 {
        *next += 1;
        *next
    };
    let dbuild = |d: &Sx, next: &mut i64| -> Sx {
        // (setref id|-1 key|-1 value): data that is created gets an id
        if let (Sx::A(_), Sx::L(_)) = (d.nth(1), d.nth(2)) {
            l(vec![d.nth(0).clone(), l(vec![a(0), a(fresh(next))]), d.nth(2).clone(), d.nth(3).clone()])
        } else {
            d.clone()
        }
    };
    match op.nth(0).int() {
        2 => l(vec![a(2), dbuild(op.nth(1), next)]),
        3 => {
            let id = if op.nth(1).int() < 0 { a(fresh(next)) } else { op.nth(1).clone() };
            let datas: Vec<Sx> = op.nth(3).list().iter().map(|d| dbuild(d, next)).collect();
            l(vec![a(3), id, op.nth(2).clone(), l(datas)])
        }
        _ => op.clone(),
    }
}

/// a history generated against a scratch store; `complete`: every annotation / data item has an id
pub fn history(rng: &mut Rng, cfg: &GenCfg, complete: bool) -> Vec<Sx> {
    let mut store = new_store();
    let mut shadow = Shadow::default();
    let mut ops = Vec::new();
    let mut next = 19i64;
    let n = 1 + rng.below(cfg.max_ops);
    for _ in 0..n {
        let mut op = shadow.gen_op(rng, cfg);
        if complete {
            op = complete_ids(&op, &mut next);
        }
        let _ = apply(&mut store, &op);
        ops.push(op);
        if guard(|| shadow.sync(&store)).is_none() {
            break;
        }
    }
    ops
}

/// does every data builder of the operation name a data set that exists (the second save
/// cannot place a data set or resource that was created after the first one)?
fn stays_in_place(shadow: &Shadow, op: &Sx) -> bool {
    let set_ok = |r: &Sx| -> bool {
        if r.nth(0).int() == 0 {
            shadow.sets.iter().any(|x| x.1 && x.0 == r.nth(1).int())
        } else {
            shadow.sets.get(r.nth(1).int() as usize).map(|x| x.1).unwrap_or(false)
        }
    };
    match op.nth(0).int() {
        0 | 1 => false,
        2 => set_ok(op.nth(1).nth(0)),
        3 => op.nth(3).list().iter().all(|d| set_ok(d.nth(0))),
        _ => true,
    }
}

/// (9 ops1 ops2): a history, then modifications of the saved store that stay within its data
/// sets and resources: keys inserted on their own, data, annotations, removals
pub fn saved_then_modified(rng: &mut Rng, cfg: &GenCfg) -> Sx {
    let mut store = new_store();
    let mut shadow = Shadow::default();
    let mut ops1 = Vec::new();
    let mut next = 19i64;
    for _ in 0..(2 + rng.below(cfg.max_ops)) {
        let op = complete_ids(&shadow.gen_op(rng, cfg), &mut next);
        let _ = apply(&mut store, &op);
        ops1.push(op);
        if guard(|| shadow.sync(&store)).is_none() {
            break;
        }
    }
    let mut ops2 = Vec::new();
    for _ in 0..rng.below(5) {
        let live: Vec<i64> = shadow.sets.iter().filter(|x| x.1).map(|x| x.0).collect();
        if !live.is_empty() && rng.chance(1, 3) {
            // a bare key: new, or one the set has already
            next += 1;
            let tok = if rng.chance(1, 5) { rng.below(3) as i64 } else { next };
            ops2.push(l(vec![a(9), a(*rng.pick(&live)), a(tok)]));
            continue;
        }
        let op = complete_ids(&shadow.gen_op(rng, cfg), &mut next);
        if !stays_in_place(&shadow, &op) {
            continue;
        }
        let _ = apply(&mut store, &op);
        ops2.push(op);
        if guard(|| shadow.sync(&store)).is_none() {
            break;
        }
    }
    l(vec![a(9), l(ops1), l(ops2)])
}

/// fixed scenarios of a store saved twice: the base store with one annotation carrying data, then
/// each single modification (and none at all)
pub fn scoped_resave() -> Vec<Sx> {
    let mut ops1 = base_ops();
    ops1.push(l(vec![a(3), a(5), l(vec![a(0), by_id(0), cb(0), cb(3)]), l(vec![existing(0, 0), existing(0, 1)])]));
    let mods: Vec<Vec<Sx>> = vec![
        vec![],
        vec![l(vec![a(9), a(0), a(7)])],
        vec![l(vec![a(9), a(1), a(7)])],
        vec![l(vec![a(9), a(0), a(0)])],
        vec![l(vec![a(9), a(0), a(7)]), l(vec![a(9), a(1), a(8)])],
        vec![l(vec![a(2), l(vec![by_id(0), by_id(30), by_id(0), l(vec![a(2), a(5)])])])],
        vec![l(vec![a(2), l(vec![by_id(1), by_id(30), by_id(4), strv("new")])])],
        vec![l(vec![a(3), a(6), l(vec![a(3), by_id(1)]), l(vec![existing(0, 1)])])],
        vec![l(vec![a(3), a(6), l(vec![a(0), by_id(0), cb(2), ce(-1)]), l(vec![l(vec![by_id(1), by_id(31), by_id(5), strv("v")])])])],
        vec![l(vec![a(4), by_id(5)])],
        vec![l(vec![a(5), by_id(0), by_id(1), a(1)])],
        vec![l(vec![a(5), by_id(0), by_id(1), a(0)])],
        vec![l(vec![a(6), by_id(0), by_id(1), a(1)])],
        vec![l(vec![a(9), a(0), a(7)]), l(vec![a(6), by_id(0), by_id(7), a(1)])],
        vec![l(vec![a(7), by_id(1)])],
        vec![l(vec![a(8), by_id(1)])],
        vec![l(vec![a(9), a(1), a(7)]), l(vec![a(4), by_id(0)])],
    ];
    mods.into_iter().map(|m| l(vec![a(9), l(ops1.clone()), l(m)])).collect()
}

fn count_ops(out: &mut Out, ops: &[Sx]) {
    for op in ops {
        out.count(match op.nth(0).int() {
            0 => "op_add_resource",
            1 => "op_add_dataset",
            2 => "op_insert_data",
            3 => "op_annotate",
            4 => "op_remove_annotation",
            5 => "op_remove_data",
            6 => "op_remove_key",
            7 => "op_remove_resource",
            _ => "op_remove_dataset",
        });
        if op.nth(0).int() == 3 {
            let t = op.nth(2);
            out.count(match t {
                Sx::A(_) => "target_none",
                _ => match t.nth(0).int() {
                    0 => "target_text",
                    1 => "target_annotation",
                    2 => "target_annotation_offset",
                    3 => "target_resource",
                    4 => "target_dataset",
                    5 => "target_key",
                    6 => "target_data",
                    _ => match t.nth(1).int() {
                        1 => "target_multi",
                        2 => "target_composite",
                        _ => "target_directional",
                    },
                },
            });
        }
    }
}

fn by_id(t: i64) -> Sx {
    l(vec![a(0), a(t)])
}
fn cb(n: i64) -> Sx {
    l(vec![a(0), a(n)])
}
fn ce(z: i64) -> Sx {
    l(vec![a(1), a(z)])
}

/// the thirteen forms of a simple selector on the scoped base store: text on r0 (7 codepoints)
/// 2..4 in the four alignments, a0 as a whole, a0 (text 1..6) with the relative offset 1..3 in
/// the four alignments, resource, data set, key, data
fn member_forms() -> Vec<(Sx, &'static str)> {
    let mut v = Vec::new();
    for (b, e) in [(cb(2), cb(4)), (cb(2), ce(-3)), (ce(-5), ce(-3)), (ce(-5), cb(4))] {
        v.push((l(vec![a(0), by_id(0), b, e]), "text"));
    }
    v.push((l(vec![a(1), by_id(0)]), "annotation"));
    for (b, e) in [(cb(1), cb(3)), (cb(1), ce(-2)), (ce(-4), ce(-2)), (ce(-4), cb(3))] {
        v.push((l(vec![a(2), by_id(0), b, e]), "annotation_offset"));
    }
    v.push((l(vec![a(3), by_id(0)]), "resource"));
    v.push((l(vec![a(4), by_id(0)]), "dataset"));
    v.push((l(vec![a(5), by_id(0), by_id(0)]), "key"));
    v.push((l(vec![a(6), by_id(0), by_id(0)]), "data"));
    v
}

fn strv(s: &str) -> Sx {
    let mut v = vec![a(4)];
    v.extend(s.chars().map(|c| a(c as u32 as i64)));
    l(v)
}

/// r0 (7 codepoints), r1 (empty), set s0 with data d0 (k0 = 1) and d1 (k1 = "x;y"), set s1 (empty),
/// a0 = text 1..-1 of r0, a1 = r1 as a resource
fn base_ops() -> Vec<Sx> {
    vec![
        l(vec![a(0), a(0), a(7)]),
        l(vec![a(0), a(1), a(0)]),
        l(vec![a(1), a(0)]),
        l(vec![a(1), a(1)]),
        l(vec![a(2), l(vec![by_id(0), by_id(0), by_id(0), l(vec![a(2), a(1)])])]),
        l(vec![a(2), l(vec![by_id(0), by_id(1), by_id(1), strv("x;y")])]),
        l(vec![a(3), a(0), l(vec![a(0), by_id(0), cb(1), ce(-1)]), l(vec![])]),
        l(vec![a(3), a(1), l(vec![a(3), by_id(1)]), l(vec![])]),
    ]
}

fn existing(set: i64, d: i64) -> Sx {
    l(vec![by_id(set), by_id(d), a(-1), l(vec![a(0)])])
}

/// exhaustive small scopes: every simple form x 0/1/2 data x with/without id; every complex kind
/// over all ordered pairs (thorough: triples) of forms; compressed ranges followed by every form;
/// complex selectors without members; awkward value texts
pub fn scoped(thorough: bool) -> Vec<(Vec<Sx>, String)> {
    let forms = member_forms();
    let mut out = Vec::new();
    for (f, name) in &forms {
        for nd in 0..3 {
            for with_id in [true, false] {
                let mut ops = base_ops();
                let datas: Vec<Sx> = (0..nd).map(|i| existing(0, i)).collect();
                ops.push(l(vec![a(3), if with_id { a(5) } else { a(-1) }, f.clone(), l(datas)]));
                out.push((ops, format!("scope_simple_{}", name)));
            }
        }
    }
    for kind in 1..=3 {
        for (f1, _) in &forms {
            for (f2, _) in &forms {
                let mut ops = base_ops();
                ops.push(l(vec![a(3), a(5), l(vec![a(7), a(kind), f1.clone(), f2.clone()]), l(vec![existing(0, 0)])]));
                out.push((ops, "scope_complex_pair".to_string()));
                if thorough {
                    for (f3, _) in &forms {
                        let mut ops = base_ops();
                        ops.push(l(vec![a(3), a(5), l(vec![a(7), a(kind), f1.clone(), f2.clone(), f3.clone()]), l(vec![])]));
                        out.push((ops, "scope_complex_triple".to_string()));
                    }
                }
            }
        }
        for (f, _) in &forms {
            // three consecutive text selections are stored as one internal range; so are two
            // consecutive annotations
            for lead in 0..2 {
                let mut ops = base_ops();
                let mut t = vec![a(7), a(kind)];
                if lead == 0 {
                    for p in 0..3 {
                        t.push(l(vec![a(0), by_id(0), cb(p), cb(p + 1)]));
                    }
                } else {
                    t.push(l(vec![a(1), by_id(0)]));
                    t.push(l(vec![a(1), by_id(1)]));
                }
                t.push(f.clone());
                t.push(l(vec![a(3), by_id(1)]));
                t.push(l(vec![a(4), by_id(1)]));
                ops.push(l(vec![a(3), a(5), l(t), l(vec![])]));
                out.push((ops, "scope_range_then_member".to_string()));
            }
        }
        // a complex selector without members
        let mut ops = base_ops();
        ops.push(l(vec![a(3), a(5), l(vec![a(7), a(kind)]), l(vec![])]));
        out.push((ops, "scope_empty_complex".to_string()));
    }
    // awkward value texts, one data item each, all on one annotation
    let texts = ["a;b", "x,y", "\"q\"", "l1\nl2", " lead ", "null", "-0", "1.0", "", "\u{e9}\u{1f600}", "\r\n", "true", "!D0", ";", ",", "'"];
    let mut ops = base_ops();
    let mut datas = Vec::new();
    for (i, t) in texts.iter().enumerate() {
        ops.push(l(vec![a(2), l(vec![by_id(0), by_id(10 + i as i64), by_id(2 + (i as i64 % 2)), strv(t)])]));
        datas.push(existing(0, 10 + i as i64));
    }
    ops.push(l(vec![a(3), a(5), l(vec![a(3), by_id(0)]), l(datas)]));
    out.push((ops, "scope_value_texts".to_string()));
    out
}

pub fn generate(out: &mut Out, tier: &str, seed: u64) {
    let thorough = tier == "thorough";
    let ctx = Ctx::new();
    let mut rng = Rng::new(seed);
    for (ops, name) in scoped(thorough) {
        count_ops(out, &ops);
        let req = l(ops);
        let (i2, o, nt) = ctx.exec(&req);
        out.count(&name);
        out.count(match o[2].nth(0).int() {
            1 => "reload_ok",
            0 => "reload_error",
            _ => "reload_other",
        });
        out.case(&i2, &o, nt, &req);
    }
    for req in scoped_resave() {
        let (i2, o, nt) = ctx.exec(&req);
        out.count("scope_save_modify_save");
        out.count(match o[2].nth(0).int() {
            1 => "reload_ok",
            0 => "reload_error",
            _ => "reload_other",
        });
        out.case(&i2, &o, nt, &req);
    }
    let m = if thorough { 60000 } else { 2000 };
    for i in 0..m {
        let cfg = GenCfg { max_ops: if i % 4 == 0 { 30 } else { 12 }, removals: if i % 2 == 0 { 0 } else { 3 }, invalid: 20, values: true };
        let req = saved_then_modified(&mut rng, &cfg);
        count_ops(out, req.nth(1).list());
        count_ops(out, &req.nth(2).list().iter().filter(|o| o.nth(0).int() != 9).cloned().collect::<Vec<_>>());
        out.count_n("bare_keys_after_save", req.nth(2).list().iter().filter(|o| o.nth(0).int() == 9).count() as u64);
        let (i2, o, nt) = ctx.exec(&req);
        out.count("history_save_modify_save");
        out.count(match o[2].nth(0).int() {
            1 => "reload_ok",
            0 => "reload_error",
            _ => "reload_other",
        });
        out.case(&i2, &o, nt, &req);
    }
    let n = if thorough { 300000 } else { 6000 };
    for i in 0..n {
        let cfg = GenCfg { max_ops: if i % 4 == 0 { 40 } else { 16 }, removals: if i % 3 == 0 { 0 } else { 3 }, invalid: 20, values: true };
        // two thirds of the histories give every item a public id (the claim without the known class)
        let complete = i % 3 != 2;
        let ops = history(&mut rng, &cfg, complete);
        count_ops(out, &ops);
        let req = l(ops);
        let (i2, o, nt) = ctx.exec(&req);
        out.count(if complete { "history_all_ids" } else { "history_some_without_id" });
        out.count(match o[2].nth(0).int() {
            1 => "reload_ok",
            0 => "reload_error",
            _ => "reload_other",
        });
        out.count_n("history_len", req.list().len() as u64);
        out.case(&i2, &o, nt, &req);
    }
}

pub const RULE: &str = "Exhaustive small scopes on a fixed base store (7-codepoint resource, empty resource, two data sets, a text annotation): each of the 13 simple selector forms (text in the four alignments, annotation, annotation with relative offset in the four alignments, resource, data set, key, data) x 0/1/2 data references x with/without public id; Multi/Composite/Directional over all ordered pairs (thorough: triples) of the 13 forms; internally compressed text and annotation ranges followed by every form; complex selectors without members; 16 awkward value texts (separators, quotes, line breaks, blanks, empty, look-alikes of other types). Stores with a history of saves: a store is saved as STAM CSV, modified in memory (a key inserted on its own into an existing data set, data, annotations, removals of annotations / data / keys / resources / data sets; nothing that creates a new data set or resource), saved again in the same place and loaded: 17 fixed scenarios on the base store and seeded random ones (the files of the second save must describe the store in memory). Then seeded random histories (storegen: <=6 resources of 0..8 codepoints of 1-4 bytes, <=4 datasets, all nine selector kinds incl. Multi/Composite/Directional with 1..4 mixed members and consecutive ranges that are stored compressed, begin- and end-aligned cursors, relative offsets, typed values incl. lists, references by id and handle, removals of every kind); two thirds of the histories give every annotation and data item a public id, one third leaves some without (known class Known_C15_tempid). The final store is saved with save() as STAM CSV into a scratch directory, the annotation table is read back as text and compared with the model's rows, the store is loaded with from_file and compared with the original by content (ids, key/value text, data references, selector kind, referenced items by rank, absolute ranges) and by the text every annotation addresses. One evaluation = one of the four observations of a history; non-trivial = the history has a successful annotate; distinct = distinct histories.";
pub const EXHAUSTIVE: bool = false;
