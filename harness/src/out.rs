//! Case-file writer and run statistics shared by all property generators.
use crate::sx::Sx;
use std::collections::hash_map::DefaultHasher;
use std::collections::{BTreeMap, HashSet};
use std::hash::{Hash, Hasher};
use std::io::{BufWriter, Write};

pub struct Out {
    w: BufWriter<std::fs::File>,
    pub lines: u64,
    pub subcases: u64,
    pub nontrivial: HashSet<u64>,
    pub hist: BTreeMap<String, u64>,
    pub samples: Vec<String>,
    stats_path: String,
}

impl Out {
    pub fn new(cases_path: &str, stats_path: &str) -> Self {
        let f = std::fs::File::create(cases_path).expect("cannot create case file");
        Out {
            w: BufWriter::new(f),
            lines: 0,
            subcases: 0,
            nontrivial: HashSet::new(),
            hist: BTreeMap::new(),
            samples: Vec::new(),
            stats_path: stats_path.to_string(),
        }
    }
    /// one case line: input and the implementation's observations (one per sub-case)
    pub fn case(&mut self, input: &Sx, implout: &[Sx], nontrivial: bool, request: &Sx) {
        let i = input.to_string();
        let o = Sx::L(implout.to_vec()).to_string();
        writeln!(self.w, "{}\t{}\t{}", i, o, request).unwrap();
        self.lines += 1;
        self.subcases += implout.len() as u64;
        if nontrivial {
            let mut h = DefaultHasher::new();
            i.hash(&mut h);
            self.nontrivial.insert(h.finish());
        }
        if self.samples.len() < 3 || (self.lines % 9973 == 0 && self.samples.len() < 6) {
            let mut s = format!("{} => {}", i, o);
            if s.len() > 600 {
                s.truncate(600);
                s.push_str("...");
            }
            self.samples.push(s);
        }
    }
    pub fn count(&mut self, key: &str) {
        *self.hist.entry(key.to_string()).or_insert(0) += 1;
    }
    pub fn count_n(&mut self, key: &str, n: u64) {
        *self.hist.entry(key.to_string()).or_insert(0) += n;
    }
    pub fn finish(mut self, rule: &str, exhaustive: bool) {
        self.w.flush().unwrap();
        let v = serde_json::json!({
            "lines": self.lines,
            "evaluations": self.subcases,
            "distinct_nontrivial": self.nontrivial.len(),
            "rule": rule,
            "exhaustive": exhaustive,
            "histogram": self.hist,
            "samples": self.samples,
        });
        std::fs::write(&self.stats_path, serde_json::to_string_pretty(&v).unwrap()).unwrap();
    }
}

/// run f, mapping a panic to None
pub fn guard<T>(f: impl FnOnce() -> T) -> Option<T> {
    std::panic::catch_unwind(std::panic::AssertUnwindSafe(f)).ok()
}
