//! C11: CBOR round trip.  A request is a history (the operation encoding of storegen / coq/Run/StoreRun.v
//! plus the C11-only operations below) and options; the store it builds is saved with the library's
//! own `save()` into a private directory, loaded again with `AnnotationStore::from_file`, and a full
//! observation vector of the original is compared with that of the reloaded store, section by
//! section.  The raw bytes of the file go to the Coq model, which must parse them under the schema
//! extracted from the source and reproduce them byte by byte.
//!
//! request  = (ops opts)
//! ops      = storegen operations 0..8, and
//!            (20 mode)            protect_text(mode)   0 checksum, 1 text, 2 both, 3 auto
//!            (21 tok len)         add a stand-off resource: id r<tok>, text in file r<tok>.txt
//!            (22 tok)             add a stand-off dataset: id s<tok>, file s<tok>.annotationset.stam.json
//!            (24 tok kind hi lo)  insert_data into dataset s<tok>, key knum: kind 0 = Float with the bits hi:lo,
//!                                 kind 1 = Int with the two's complement value hi:lo
//!            (23 tok secs q ns)   insert_data into dataset s<tok>, key kdt, a Datetime value (unix seconds,
//!                                 offset q quarter hours, nanoseconds)
//! opts     = (milestone_interval use_include flags [load])   the configuration the store is built with;
//!            flags: bit 0 generate_ids, bit 1 strip_temp_ids off, bits 2..7 a reverse index off each;
//!            load = (milestone_interval use_include flags) the configuration given to from_file, chosen
//!            independently (bit 8 of its flags: shrink_to_fit off); absent = the build configuration
use crate::out::{guard, Out};
use crate::rng::Rng;
use crate::storegen;
use crate::sx::{a, b, l, nats, text, Sx};
use stam::*;
use std::collections::hash_map::DefaultHasher;
use std::hash::{Hash, Hasher};
use std::sync::atomic::{AtomicUsize, Ordering};

pub struct Ctx {
    dir: String,
    counter: AtomicUsize,
    /// what the last executed store contained (for the histogram of the evidence)
    last_cov: std::cell::RefCell<Vec<String>>,
}

fn panic_sx() -> Sx {
    l(vec![a(-1)])
}
fn err_sx() -> Sx {
    l(vec![a(0)])
}

fn workdir() -> String {
    let base = std::env::var("VERIF_WORK").unwrap_or_else(|_| "/verif/.cache/work".to_string());
    format!("{}/c11/{}", base, std::process::id())
}

/// 2 atoms of 31 bits: a deterministic digest of an observation (SipHash with fixed keys)
fn digest(x: &Sx) -> Sx {
    let mut h = DefaultHasher::new();
    x.to_string().hash(&mut h);
    let v = h.finish();
    l(vec![a((v >> 33) as i64), a((v & 0x7fff_ffff) as i64)])
}

fn res_usize(r: Option<Result<usize, StamError>>) -> Sx {
    match r {
        None => a(-1),
        Some(Err(_)) => a(-2),
        Some(Ok(v)) => a(v as i64),
    }
}

fn ts_sx(t: &ResultTextSelection) -> Sx {
    l(vec![a(t.begin() as i64), a(t.end() as i64), a(t.handle().map(|h| h.as_usize() as i64).unwrap_or(-1))])
}

fn operators() -> Vec<TextSelectionOperator> {
    vec![
        TextSelectionOperator::equals(),
        TextSelectionOperator::overlaps(),
        TextSelectionOperator::embeds(),
        TextSelectionOperator::embedded(),
        TextSelectionOperator::before(),
        TextSelectionOperator::after(),
        TextSelectionOperator::precedes(),
        TextSelectionOperator::succeeds(),
        TextSelectionOperator::samebegin(),
        TextSelectionOperator::sameend(),
    ]
}

/// texts, text selections in textual order (both directions), the position index through
/// utf8byte / utf8byte_to_charpos probes of every position
fn obs_texts(store: &AnnotationStore) -> Sx {
    let mut v = Vec::new();
    for h in 0..store.resources_len() {
        v.push(
            guard(|| {
                let res = match store.resource(TextResourceHandle::new(h)) {
                    Some(x) => x,
                    None => return a(-2),
                };
                let t = res.text();
                let fwd: Vec<Sx> = res.textselections().map(|t| ts_sx(&t)).collect();
                let bwd: Vec<Sx> = res.textselections().rev().map(|t| ts_sx(&t)).collect();
                let nchars = t.chars().count();
                let c2b: Vec<Sx> = (0..=nchars + 1).map(|p| res_usize(guard(|| res.utf8byte(p)))).collect();
                let b2c: Vec<Sx> = (0..=t.len() + 1).map(|p| res_usize(guard(|| res.utf8byte_to_charpos(p)))).collect();
                let bysel: Vec<Sx> = (0..res.textselections_len())
                    .map(|i| match res.textselection_by_handle(TextSelectionHandle::new(i)) {
                        Ok(ts) => l(vec![ts_sx(&ts), text(ts.text()), a(ts.annotations_len() as i64)]),
                        Err(_) => a(-2),
                    })
                    .collect();
                l(vec![
                    text(res.id().unwrap_or("")),
                    text(t),
                    a(res.textlen() as i64),
                    a(res.textselections_len() as i64),
                    l(fwd),
                    l(bwd),
                    l(c2b),
                    l(b2c),
                    l(bysel),
                ])
            })
            .unwrap_or_else(panic_sx),
        );
    }
    l(v)
}

/// related-text searches: every known selection of every resource x a pool of operators
fn obs_related(store: &AnnotationStore) -> Sx {
    let ops = operators();
    let mut v = Vec::new();
    for h in 0..store.resources_len() {
        v.push(
            guard(|| {
                let res = match store.resource(TextResourceHandle::new(h)) {
                    Some(x) => x,
                    None => return a(-2),
                };
                let mut per = Vec::new();
                for i in 0..res.textselections_len() {
                    if let Ok(ts) = res.textselection_by_handle(TextSelectionHandle::new(i)) {
                        let mut row = Vec::new();
                        for op in ops.iter() {
                            let r = guard(|| {
                                let mut x: Vec<(usize, usize, i64)> =
                                    ts.related_text(*op).map(|t| (t.begin(), t.end(), t.handle().map(|h| h.as_usize() as i64).unwrap_or(-1))).collect();
                                x.sort();
                                l(x.into_iter().map(|(b, e, h)| l(vec![a(b as i64), a(e as i64), a(h)])).collect())
                            });
                            row.push(r.unwrap_or_else(panic_sx));
                        }
                        per.push(l(row));
                    } else {
                        per.push(a(-2));
                    }
                }
                l(per)
            })
            .unwrap_or_else(panic_sx),
        );
    }
    l(v)
}

fn data_handles<'a>(it: impl Iterator<Item = ResultItem<'a, AnnotationData>>) -> Sx {
    l(it.map(|d| l(vec![a(d.set().handle().as_usize() as i64), a(d.handle().as_usize() as i64)])).collect())
}

/// data searches: per dataset and key find_data(Any), a pool of value operators, store-wide find_data
fn obs_data(store: &AnnotationStore) -> Sx {
    let mut v = Vec::new();
    let valops: Vec<DataOperator> = vec![
        DataOperator::Any,
        DataOperator::Null,
        DataOperator::True,
        DataOperator::EqualsInt(0),
        DataOperator::EqualsInt(1),
        DataOperator::GreaterThan(0),
        DataOperator::Equals("a".into()),
        DataOperator::Not(Box::new(DataOperator::EqualsInt(2))),
    ];
    for h in 0..store.datasets_len() {
        v.push(
            guard(|| {
                let set = match store.dataset(AnnotationDataSetHandle::new(h)) {
                    Some(x) => x,
                    None => return a(-2),
                };
                let mut rows = vec![data_handles(set.data()), nats(set.keys().map(|k| k.handle().as_usize()))];
                for k in 0..set.as_ref().keys_len() {
                    if set.key(DataKeyHandle::new(k)).is_none() {
                        rows.push(a(-2));
                        continue;
                    }
                    for op in valops.iter() {
                        let r = guard(|| data_handles(store.find_data(AnnotationDataSetHandle::new(h), DataKeyHandle::new(k), op.clone())));
                        rows.push(r.unwrap_or_else(panic_sx));
                    }
                }
                l(rows)
            })
            .unwrap_or_else(panic_sx),
        );
    }
    v.push(guard(|| data_handles(store.data())).unwrap_or_else(panic_sx));
    v.push(guard(|| data_handles(store.find_data(false, false, DataOperator::Any))).unwrap_or_else(panic_sx));
    l(v)
}

fn query_item(x: &QueryResultItem) -> Sx {
    match x {
        QueryResultItem::None => l(vec![a(0)]),
        QueryResultItem::TextSelection(t) => l(vec![a(1), a(t.resource().handle().as_usize() as i64), a(t.begin() as i64), a(t.end() as i64)]),
        QueryResultItem::Annotation(x) => l(vec![a(2), a(x.handle().as_usize() as i64)]),
        QueryResultItem::TextResource(x) => l(vec![a(3), a(x.handle().as_usize() as i64)]),
        QueryResultItem::DataKey(x) => l(vec![a(4), a(x.set().handle().as_usize() as i64), a(x.handle().as_usize() as i64)]),
        QueryResultItem::AnnotationData(x) => l(vec![a(5), a(x.set().handle().as_usize() as i64), a(x.handle().as_usize() as i64)]),
        QueryResultItem::AnnotationDataSet(x) => l(vec![a(6), a(x.handle().as_usize() as i64)]),
        QueryResultItem::AnnotationSubStore(_) => l(vec![a(7)]),
    }
}

/// the query pool: fixed queries plus one per (dataset id, key id) and per resource id of the store
fn query_pool(store: &AnnotationStore) -> Vec<String> {
    let mut q: Vec<String> = vec![
        "SELECT ANNOTATION ?a;".into(),
        "SELECT RESOURCE ?r;".into(),
        "SELECT DATASET ?s;".into(),
        "SELECT DATA ?d;".into(),
        "SELECT KEY ?k;".into(),
        "SELECT TEXT ?t;".into(),
        "SELECT ANNOTATION ?a { SELECT ANNOTATION ?b WHERE ANNOTATION AS TARGET ?a; }".into(),
        "SELECT ANNOTATION ?a { SELECT TEXT ?t WHERE ANNOTATION ?a; }".into(),
        "SELECT TEXT ?t { SELECT TEXT ?u WHERE RELATION ?t EMBEDS; }".into(),
        "SELECT TEXT ?t { SELECT TEXT ?u WHERE RELATION ?t OVERLAPS; }".into(),
        "SELECT ANNOTATION ?a { SELECT ANNOTATION ?b WHERE RELATION ?a PRECEDES; }".into(),
    ];
    for s in 0..store.datasets_len() {
        if let Some(set) = store.dataset(AnnotationDataSetHandle::new(s)) {
            if let Some(sid) = set.id() {
                if sid.contains('"') {
                    continue;
                }
                q.push(format!("SELECT ANNOTATION ?a WHERE DATASET \"{}\";", sid));
                for k in set.keys() {
                    if let Some(kid) = k.id() {
                        if kid.contains('"') {
                            continue;
                        }
                        q.push(format!("SELECT ANNOTATION ?a WHERE DATA \"{}\" \"{}\";", sid, kid));
                        q.push(format!("SELECT DATA ?d WHERE DATA \"{}\" \"{}\";", sid, kid));
                        q.push(format!("SELECT TEXT ?t WHERE DATA \"{}\" \"{}\";", sid, kid));
                        q.push(format!("SELECT ANNOTATION ?a WHERE DATA \"{}\" \"{}\" = 1;", sid, kid));
                        q.push(format!("SELECT RESOURCE ?r WHERE DATA \"{}\" \"{}\";", sid, kid));
                    }
                }
            }
        }
    }
    for r in 0..store.resources_len() {
        if let Some(res) = store.resource(TextResourceHandle::new(r)) {
            if let Some(rid) = res.id() {
                if !rid.contains('"') {
                    q.push(format!("SELECT ANNOTATION ?a WHERE RESOURCE \"{}\";", rid));
                    q.push(format!("SELECT TEXT ?t WHERE RESOURCE \"{}\";", rid));
                    q.push(format!("SELECT ANNOTATION ?a WHERE RESOURCE AS METADATA \"{}\";", rid));
                }
            }
        }
    }
    q
}

fn obs_queries(store: &AnnotationStore, pool: &[String]) -> Sx {
    let mut v = Vec::new();
    for qs in pool {
        let r = guard(|| {
            let (query, _) = match Query::parse(qs.as_str()) {
                Ok(x) => x,
                Err(_) => return a(-3),
            };
            let iter = match store.query(query) {
                Ok(x) => x,
                Err(_) => return err_sx(),
            };
            let mut rows = Vec::new();
            for (n, row) in iter.enumerate() {
                if n >= 400 {
                    rows.push(a(-4));
                    break;
                }
                rows.push(l(row.iter().map(query_item).collect()));
            }
            l(rows)
        });
        v.push(r.unwrap_or_else(panic_sx));
    }
    l(v)
}

/// every setting of a Config that is stored in the file and has a public getter
fn config_sx(c: &Config) -> Sx {
    l(vec![
        b(c.generate_ids()),
        b(c.strip_temp_ids()),
        b(c.use_include()),
        a(c.milestone_interval() as i64),
        b(c.textrelationmap()),
        b(c.resource_annotation_map()),
        b(c.dataset_annotation_map()),
        b(c.annotation_annotation_map()),
        b(c.key_annotation_metamap()),
        b(c.data_annotation_metamap()),
        opt_bytes(c.workdir().and_then(|p| p.to_str())),
    ])
}

/// what an insertion WITHOUT identifiers does after the load: the same on the saved and on the
/// loaded store (generated ids or none, the same handles, the same lookups afterwards)
fn post_load(store: &mut AnnotationStore) -> Sx {
    let live = (0..store.resources_len()).find(|h| store.resource(TextResourceHandle::new(*h)).is_some());
    let target = match live {
        Some(h) => l(vec![a(0), l(vec![a(1), a(h as i64)]), l(vec![a(0), a(0)]), l(vec![a(0), a(0)])]),
        None => a(-1),
    };
    let data = l(vec![l(vec![a(0), a(0)]), a(-1), l(vec![a(0), a(0)]), l(vec![a(2), a(1)])]);
    let o1 = storegen::apply(store, &l(vec![a(3), a(-1), target, l(vec![data])]));
    let o2 = storegen::apply(store, &l(vec![a(2), l(vec![l(vec![a(0), a(0)]), a(-1), l(vec![a(0), a(1)]), l(vec![a(2), a(2)])])]));
    let idlen = |id: Option<&str>| a(id.map(|s| s.len() as i64).unwrap_or(-1));
    let ann = guard(|| {
        if o1.nth(0).int() == 1 {
            match store.annotation(AnnotationHandle::new(o1.nth(1).int() as usize)) {
                Some(x) => l(vec![idlen(x.id()), l(x.data().map(|d| idlen(d.id())).collect())]),
                None => a(-2),
            }
        } else {
            a(-3)
        }
    })
    .unwrap_or_else(panic_sx);
    let dat = guard(|| {
        if o2.nth(0).int() == 1 {
            match store.dataset("s0").and_then(|s| s.annotationdata(AnnotationDataHandle::new(o2.nth(1).int() as usize))) {
                Some(d) => idlen(d.id()),
                None => a(-2),
            }
        } else {
            a(-3)
        }
    })
    .unwrap_or_else(panic_sx);
    l(vec![o1, o2, ann, dat, digest(&l(storegen::observe(store))), config_sx(store.config())])
}

/// STAM JSON of the whole store (stand-off members appear as @include), text validation, counters,
/// the configuration switches
fn obs_misc(store: &AnnotationStore) -> Sx {
    // (the store's own config says CBOR by now; the JSON serialiser only takes the layout from the
    // config it is given, the @include decisions come from the members' own configurations)
    let json = guard(|| match store.to_json_string(&Config::default()) {
        Ok(s) => l(vec![a(1), a(s.len() as i64), a(s.matches("@include").count() as i64), digest(&text(&s))]),
        Err(_) => err_sx(),
    })
    .unwrap_or_else(panic_sx);
    let val = guard(|| {
        let r = store.validate_text(true);
        l(vec![a(r.valid() as i64), a(r.invalid() as i64), a(r.missing() as i64)])
    })
    .unwrap_or_else(panic_sx);
    let perann = guard(|| {
        l(store
            .annotations()
            .map(|x| match x.validate_text() {
                None => a(-1),
                Some(v) => b(v),
            })
            .collect())
    })
    .unwrap_or_else(panic_sx);
    let counts = guard(|| {
        let c = store.index_totalcount();
        l(vec![
            a(store.annotations_len() as i64),
            a(store.resources_len() as i64),
            a(store.datasets_len() as i64),
            nats(vec![c.0, c.1, c.2, c.3, c.4, c.5, c.6, c.7]),
            a(store.annotations().count() as i64),
            a(store.resources().count() as i64),
            a(store.datasets().count() as i64),
            text(store.id().unwrap_or("")),
        ])
    })
    .unwrap_or_else(panic_sx);
    // the configuration the file carries: the store's and each member's own (debug and
    // shrink_to_fit are documented to come from the Config given to from_file)
    let cfg = guard(|| {
        let mut v = vec![config_sx(store.config())];
        for r in store.resources() {
            v.push(config_sx(r.as_ref().config()));
        }
        for d in store.datasets() {
            v.push(config_sx(d.as_ref().config()));
        }
        l(v)
    })
    .unwrap_or_else(panic_sx);
    // temporary ids (!A0, !R0 ...) resolve through the resolve_temp_ids flag of the id maps
    let temp = guard(|| {
        let mut v = Vec::new();
        for h in 0..3 {
            v.push(store.annotation(format!("!A{}", h).as_str()).map(|x| a(x.handle().as_usize() as i64)).unwrap_or(a(-1)));
            v.push(store.resource(format!("!R{}", h).as_str()).map(|x| a(x.handle().as_usize() as i64)).unwrap_or(a(-1)));
            v.push(store.dataset(format!("!S{}", h).as_str()).map(|x| a(x.handle().as_usize() as i64)).unwrap_or(a(-1)));
        }
        for set in store.datasets() {
            v.push(set.key("!K0").map(|x| a(x.handle().as_usize() as i64)).unwrap_or(a(-1)));
            v.push(set.annotationdata("!D0").map(|x| a(x.handle().as_usize() as i64)).unwrap_or(a(-1)));
        }
        l(v)
    })
    .unwrap_or_else(panic_sx);
    l(vec![json, val, perann, counts, cfg, temp])
}


// ---------------------------------------------------------------------------------------------
// the index dump through the public API, in the format of coq/Run/C11.v store_view

const DEAD: Sx = Sx::A(-2);
fn bytes_sx(s: &str) -> Sx {
    l(s.as_bytes().iter().map(|x| a(*x as i64)).collect())
}
fn opt_bytes(s: Option<&str>) -> Sx {
    match s {
        Some(s) => bytes_sx(s),
        None => a(-1),
    }
}
fn sorted_handles<'a>(it: impl Iterator<Item = ResultItem<'a, Annotation>>) -> Sx {
    let mut v: Vec<usize> = it.map(|x| x.handle().as_usize()).collect();
    v.sort();
    nats(v)
}
fn view_value(v: &DataValue) -> Sx {
    match v {
        DataValue::Null => l(vec![a(0)]),
        DataValue::String(s) => l(vec![a(1), bytes_sx(s)]),
        DataValue::Bool(x) => l(vec![a(2), b(*x)]),
        DataValue::Int(i) => {
            let m = (*i as i128).unsigned_abs();
            l(vec![a(3), b(*i < 0), a((m >> 32) as i64), a((m & 0xffff_ffff) as i64)])
        }
        DataValue::Float(f) => {
            let bits = f.to_bits();
            l(vec![a(4), a((bits >> 32) as i64), a((bits & 0xffff_ffff) as i64)])
        }
        DataValue::List(items) => {
            let mut v = vec![a(5)];
            v.extend(items.iter().map(view_value));
            l(v)
        }
        DataValue::Datetime(dt) => l(vec![a(6), bytes_sx(&dt.to_rfc3339())]),
    }
}

fn store_view(store: &AnnotationStore) -> Sx {
    let anns: Vec<Sx> = (0..store.annotations_len())
        .map(|h| {
            guard(|| match store.annotation(AnnotationHandle::new(h)) {
                None => DEAD,
                Some(x) => l(vec![
                    opt_bytes(x.id()),
                    match x.id() {
                        Some(id) => store.annotation(id).map(|y| a(y.handle().as_usize() as i64)).unwrap_or(a(-1)),
                        None => a(-1),
                    },
                    l(x.as_ref().raw_data().iter().map(|(s, d)| nats(vec![s.as_usize(), d.as_usize()])).collect()),
                    sorted_handles(x.annotations()),
                ]),
            })
            .unwrap_or_else(panic_sx)
        })
        .collect();
    let ress: Vec<Sx> = (0..store.resources_len())
        .map(|h| {
            guard(|| match store.resource(TextResourceHandle::new(h)) {
                None => DEAD,
                Some(r) => {
                    let id = r.id().unwrap_or("");
                    let tsels: Vec<Sx> = (0..r.textselections_len())
                        .map(|j| match r.textselection_by_handle(TextSelectionHandle::new(j)) {
                            Err(_) => DEAD,
                            Ok(ts) => l(vec![a(ts.begin() as i64), a(ts.end() as i64), sorted_handles(ts.annotations())]),
                        })
                        .collect();
                    let res = r.as_ref();
                    let posidx: Vec<Sx> = res
                        .positions(PositionMode::Both)
                        .map(|k| match res.position(*k) {
                            None => a(-3),
                            Some(item) => l(vec![
                                a(*k as i64),
                                a(item.bytepos() as i64),
                                l(item.iter_begin2end().map(|(e, t)| nats(vec![*e, t.as_usize()])).collect()),
                                l(item.iter_end2begin().map(|(e, t)| nats(vec![*e, t.as_usize()])).collect()),
                            ]),
                        })
                        .collect();
                    l(vec![
                        bytes_sx(id),
                        store.resource(id).map(|y| a(y.handle().as_usize() as i64)).unwrap_or(a(-1)),
                        bytes_sx(r.text()),
                        a(r.textlen() as i64),
                        opt_bytes(res.filename()),
                        l(tsels),
                        sorted_handles(r.annotations_as_metadata()),
                        l(posidx),
                        config_sx(res.config()),
                    ])
                }
            })
            .unwrap_or_else(panic_sx)
        })
        .collect();
    let sets: Vec<Sx> = (0..store.datasets_len())
        .map(|h| {
            guard(|| match store.dataset(AnnotationDataSetHandle::new(h)) {
                None => DEAD,
                Some(s) => {
                    let keys: Vec<Sx> = (0..s.as_ref().keys_len())
                        .map(|j| match s.key(DataKeyHandle::new(j)) {
                            None => DEAD,
                            Some(k) => {
                                let mut dh: Vec<usize> = k.data().map(|d| d.handle().as_usize()).collect();
                                dh.sort();
                                l(vec![
                                    bytes_sx(k.id().unwrap_or("")),
                                    s.key(k.id().unwrap_or("")).map(|y| a(y.handle().as_usize() as i64)).unwrap_or(a(-1)),
                                    nats(dh),
                                    sorted_handles(k.annotations_as_metadata()),
                                ])
                            }
                        })
                        .collect();
                    let data: Vec<Sx> = (0..s.as_ref().data_len())
                        .map(|j| match s.annotationdata(AnnotationDataHandle::new(j)) {
                            None => DEAD,
                            Some(d) => l(vec![
                                opt_bytes(d.id()),
                                match d.id() {
                                    Some(id) => s.annotationdata(id).map(|y| a(y.handle().as_usize() as i64)).unwrap_or(a(-1)),
                                    None => a(-1),
                                },
                                a(d.key().handle().as_usize() as i64),
                                view_value(d.value()),
                                sorted_handles(d.annotations()),
                                sorted_handles(d.annotations_as_metadata()),
                            ]),
                        })
                        .collect();
                    l(vec![
                        opt_bytes(s.id()),
                        match s.id() {
                            Some(id) => store.dataset(id).map(|y| a(y.handle().as_usize() as i64)).unwrap_or(a(-1)),
                            None => a(-1),
                        },
                        opt_bytes(s.as_ref().filename()),
                        l(keys),
                        l(data),
                        sorted_handles(s.annotations()),
                        config_sx(s.as_ref().config()),
                    ])
                }
            })
            .unwrap_or_else(panic_sx)
        })
        .collect();
    l(vec![l(anns), l(ress), l(sets), config_sx(store.config())])
}

// ---------------------------------------------------------------------------------------------
// generic CBOR item trees (the file is well-formed CBOR), canonical up to the order of map entries

#[derive(Clone, PartialEq, Eq, PartialOrd, Ord, Debug)]
enum Item {
    U(u64),
    N(u64),
    T(Vec<u8>),
    Arr(Vec<Item>),
    Map(Vec<(Item, Item)>),
    Simple(u8),
    F(u64),
}

fn parse_item(b: &[u8], pos: &mut usize, depth: usize) -> Option<Item> {
    if depth > 200 || *pos >= b.len() {
        return None;
    }
    let h = b[*pos];
    *pos += 1;
    let (m, ai) = (h >> 5, h & 31);
    let mut arg = |pos: &mut usize| -> Option<u64> {
        let n = match ai {
            0..=23 => return Some(ai as u64),
            24 => 1,
            25 => 2,
            26 => 4,
            27 => 8,
            _ => return None,
        };
        if *pos + n > b.len() {
            return None;
        }
        let mut v: u64 = 0;
        for i in 0..n {
            v = (v << 8) | b[*pos + i] as u64;
        }
        *pos += n;
        Some(v)
    };
    match m {
        0 => arg(pos).map(Item::U),
        1 => arg(pos).map(Item::N),
        3 => {
            let n = arg(pos)? as usize;
            if *pos + n > b.len() {
                return None;
            }
            let v = b[*pos..*pos + n].to_vec();
            *pos += n;
            Some(Item::T(v))
        }
        4 => {
            let n = arg(pos)?;
            let mut v = Vec::new();
            for _ in 0..n {
                v.push(parse_item(b, pos, depth + 1)?);
            }
            Some(Item::Arr(v))
        }
        5 => {
            let n = arg(pos)?;
            let mut v = Vec::new();
            for _ in 0..n {
                let k = parse_item(b, pos, depth + 1)?;
                let x = parse_item(b, pos, depth + 1)?;
                v.push((k, x));
            }
            v.sort();
            Some(Item::Map(v))
        }
        7 => match ai {
            20..=22 => Some(Item::Simple(ai)),
            27 => arg(pos).map(Item::F),
            _ => None,
        },
        _ => None,
    }
}

fn canonical_tree(b: &[u8]) -> Option<Item> {
    let mut pos = 0;
    let it = parse_item(b, &mut pos, 0)?;
    if pos == b.len() {
        Some(it)
    } else {
        None
    }
}

pub const SECTIONS: [&str; 6] = ["items+reverse-lookups+ids", "texts+textselections+positionindex", "data", "related_text", "queries", "json+validation+counts+config"];

fn observe_full(store: &AnnotationStore, pool: &[String]) -> Vec<Sx> {
    vec![
        l(storegen::observe(store)),
        obs_texts(store),
        obs_data(store),
        obs_related(store),
        obs_queries(store, pool),
        obs_misc(store),
    ]
}

fn apply(store: &mut AnnotationStore, dir: &str, op: &Sx) -> Sx {
    match op.nth(0).int() {
        20 => {
            let mode = match op.nth(1).int() {
                0 => TextValidationMode::Checksum,
                1 => TextValidationMode::Text,
                2 => TextValidationMode::Both,
                _ => TextValidationMode::Auto,
            };
            match guard(|| store.protect_text(mode)) {
                None => panic_sx(),
                Some(Err(_)) => err_sx(),
                Some(Ok(())) => l(vec![a(1)]),
            }
        }
        21 => {
            let id = storegen::rid(op.nth(1).int());
            let fname = format!("{}.txt", id);
            let _ = std::fs::write(format!("{}/{}", dir, fname), storegen::text_of_len(op.nth(2).int() as usize));
            let bld = TextResourceBuilder::new().with_id(id).with_filename(fname);
            match guard(|| store.add_resource(bld)) {
                None => panic_sx(),
                Some(Err(_)) => err_sx(),
                Some(Ok(h)) => l(vec![a(1), a(h.as_usize() as i64)]),
            }
        }
        22 => {
            let id = storegen::sid(op.nth(1).int());
            let fname = format!("{}.annotationset.stam.json", id);
            let json = format!("{{\"@type\": \"AnnotationDataSet\", \"@id\": \"{}\", \"keys\": [{{\"@type\": \"DataKey\", \"@id\": \"k0\"}}], \"data\": [{{\"@type\": \"AnnotationData\", \"@id\": \"d7\", \"key\": \"k0\", \"value\": {{\"@type\": \"Int\", \"value\": 1}}}}]}}", id);
            let _ = std::fs::write(format!("{}/{}", dir, fname), json);
            // (with an id the builder ignores the file; the id comes from the file)
            let bld = AnnotationDataSetBuilder::new().with_filename(fname);
            match guard(|| store.add_dataset(bld)) {
                None => panic_sx(),
                Some(Err(_)) => err_sx(),
                Some(Ok(h)) => l(vec![a(1), a(h.as_usize() as i64)]),
            }
        }
        23 => {
            // data with a Datetime value (the third custom codec): dataset s<tok>, key kdt
            let secs = op.nth(2).int();
            let off = FixedOffset::east_opt((op.nth(3).int() as i32) * 900).unwrap_or(FixedOffset::east_opt(0).unwrap());
            let dt = DateTime::<Utc>::from_timestamp(secs, (op.nth(4).int() as u32) % 1_000_000_000).unwrap_or_default().with_timezone(&off);
            let bld = AnnotationDataBuilder::new().with_dataset(storegen::sid(op.nth(1).int()).into()).with_key("kdt".into()).with_value(DataValue::Datetime(dt));
            match guard(|| store.insert_data(bld)) {
                None => panic_sx(),
                Some(Err(_)) => err_sx(),
                Some(Ok(h)) => l(vec![a(1), a(h.1.as_usize() as i64)]),
            }
        }
        24 => {
            // numeric extremes: a Float given by its bits (NaN, infinities, -0.0, subnormals) or an Int
            let bits = ((op.nth(3).int() as u64) << 32) | (op.nth(4).int() as u64 & 0xffff_ffff);
            let v = if op.nth(2).int() == 0 { DataValue::Float(f64::from_bits(bits)) } else { DataValue::Int(bits as i64 as isize) };
            let bld = AnnotationDataBuilder::new().with_dataset(storegen::sid(op.nth(1).int()).into()).with_key("knum".into()).with_value(v);
            match guard(|| store.insert_data(bld)) {
                None => panic_sx(),
                Some(Err(_)) => err_sx(),
                Some(Ok(h)) => l(vec![a(1), a(h.1.as_usize() as i64)]),
            }
        }
        _ => storegen::apply(store, op),
    }
}


fn sel_cov(sel: &Selector, out: &mut Vec<String>) {
    let name = match sel {
        Selector::TextSelector(..) => "sel_text",
        Selector::AnnotationSelector(_, Some(_)) => "sel_annotation_with_offset",
        Selector::AnnotationSelector(_, None) => "sel_annotation",
        Selector::ResourceSelector(..) => "sel_resource",
        Selector::DataSetSelector(..) => "sel_dataset",
        Selector::MultiSelector(..) => "sel_multi",
        Selector::CompositeSelector(..) => "sel_composite",
        Selector::DirectionalSelector(..) => "sel_directional",
        Selector::DataKeySelector(..) => "sel_datakey",
        Selector::AnnotationDataSelector(..) => "sel_annotationdata",
        Selector::RangedTextSelector { .. } => "sel_ranged_text",
        Selector::RangedAnnotationSelector { .. } => "sel_ranged_annotation",
    };
    out.push(name.to_string());
    if let Selector::MultiSelector(v) | Selector::CompositeSelector(v) | Selector::DirectionalSelector(v) = sel {
        for x in v {
            sel_cov(x, out);
        }
    }
}

/// which features the saved store exercises
fn coverage(store: &AnnotationStore) -> Vec<String> {
    let mut out = Vec::new();
    guard(|| {
        let mut gaps = false;
        for h in 0..store.annotations_len() {
            match store.annotation(AnnotationHandle::new(h)) {
                None => gaps = true,
                Some(x) => sel_cov(x.as_ref().target(), &mut out),
            }
        }
        if gaps {
            out.push("gap_annotations".into());
        }
        for h in 0..store.resources_len() {
            match store.resource(TextResourceHandle::new(h)) {
                None => out.push("gap_resources".into()),
                Some(r) => {
                    if r.as_ref().filename().is_some() {
                        out.push("standoff_resource".into());
                    }
                    if (0..r.textselections_len()).any(|j| r.textselection_by_handle(TextSelectionHandle::new(j)).is_err()) {
                        out.push("gap_textselections".into());
                    }
                }
            }
        }
        for h in 0..store.datasets_len() {
            match store.dataset(AnnotationDataSetHandle::new(h)) {
                None => out.push("gap_datasets".into()),
                Some(s) => {
                    if s.as_ref().filename().is_some() {
                        out.push("standoff_dataset".into());
                    }
                    if (0..s.as_ref().keys_len()).any(|j| s.key(DataKeyHandle::new(j)).is_none()) {
                        out.push("gap_keys".into());
                    }
                    if (0..s.as_ref().data_len()).any(|j| s.annotationdata(AnnotationDataHandle::new(j)).is_none()) {
                        out.push("gap_data".into());
                    }
                    for d in s.data() {
                        out.push(
                            match d.value() {
                                DataValue::Null => "val_null",
                                DataValue::String(_) => "val_string",
                                DataValue::Bool(_) => "val_bool",
                                DataValue::Int(_) => "val_int",
                                DataValue::Float(_) => "val_float",
                                DataValue::List(_) => "val_list",
                                DataValue::Datetime(_) => "val_datetime",
                            }
                            .to_string(),
                        );
                    }
                }
            }
        }
        if store.has_validation_info() {
            out.push("protected_text".into());
        }
    });
    out.sort();
    out.dedup();
    out
}

impl Ctx {
    pub fn new() -> Self {
        let dir = workdir();
        let _ = std::fs::create_dir_all(&dir);
        Ctx { dir, counter: AtomicUsize::new(0), last_cov: std::cell::RefCell::new(Vec::new()) }
    }

    /// the configuration the store is BUILT with (it is part of the saved store)
    fn config(&self, opts: &Sx) -> Config {
        let mi = opts.nth(0).int();
        let f = opts.nth(2).int();
        Config::default()
            .with_generate_ids(f & 1 != 0)
            .with_strip_temp_ids(f & 2 == 0)
            .with_textrelationmap(f & 4 == 0)
            .with_resource_annotation_map(f & 8 == 0)
            .with_dataset_annotation_map(f & 16 == 0)
            .with_annotation_annotation_map(f & 32 == 0)
            .with_key_annotation_metamap(f & 64 == 0)
            .with_data_annotation_metamap(f & 128 == 0)
            .with_debug(false)
            .with_workdir(self.dir.clone())
            .with_milestone_interval(if mi <= 0 { 100 } else { mi as usize })
            .with_use_include(opts.nth(1).int() != 0)
    }

    /// the configuration given to from_file: chosen independently of the one the store was built
    /// with; it only says how to load (opts[3] absent = the build configuration, as in old requests)
    fn load_config(&self, opts: &Sx) -> Config {
        let lo = opts.nth(3);
        if lo.list().is_empty() {
            return self.config(opts);
        }
        let mi = lo.nth(0).int();
        let f = lo.nth(2).int();
        Config::default()
            .with_generate_ids(f & 1 != 0)
            .with_strip_temp_ids(f & 2 == 0)
            .with_textrelationmap(f & 4 == 0)
            .with_resource_annotation_map(f & 8 == 0)
            .with_dataset_annotation_map(f & 16 == 0)
            .with_annotation_annotation_map(f & 32 == 0)
            .with_key_annotation_metamap(f & 64 == 0)
            .with_data_annotation_metamap(f & 128 == 0)
            .with_shrink_to_fit(f & 256 == 0)
            .with_debug(false)
            .with_workdir(self.dir.clone())
            .with_milestone_interval(if mi <= 0 { 100 } else { mi as usize })
            .with_use_include(lo.nth(1).int() != 0)
    }

    pub fn exec(&self, req: &Sx) -> (Sx, Vec<Sx>, bool) {
        let ops = req.nth(0);
        let opts = req.nth(1);
        let n = self.counter.fetch_add(1, Ordering::SeqCst);
        let fname = format!("case{}.store.stam.cbor", n % 4);
        let path = format!("{}/{}", self.dir, fname);
        let _ = std::fs::remove_file(&path);
        let mut store = AnnotationStore::new(self.config(opts)).with_id("c11");
        let mut outcomes = Vec::new();
        for op in ops.list() {
            outcomes.push(apply(&mut store, &self.dir, op));
        }
        // the store as it is saved: the file name and the data format are part of it
        let named = guard(|| {
            store.set_filename(fname.as_str());
        })
        .is_some();
        *self.last_cov.borrow_mut() = coverage(&store);
        let pool = guard(|| query_pool(&store)).unwrap_or_default();
        let orig = observe_full(&store, &pool);
        let saved = if named {
            match guard(|| store.save()) {
                None => -1,
                Some(Err(_)) => 0,
                Some(Ok(())) => 1,
            }
        } else {
            -1
        };
        let bytes: Vec<u8> = if saved == 1 { std::fs::read(&path).unwrap_or_default() } else { Vec::new() };
        let loaded = if saved == 1 {
            guard(|| AnnotationStore::from_file(fname.as_str(), self.load_config(opts)))
        } else {
            Some(Err(StamError::OtherError("not saved")))
        };
        let nontrivial = store.annotations_len() > 0 && saved == 1 && outcomes.iter().any(|o| o.nth(0).int() == 1);
        let mut sections_in = Vec::new(); // what the original answered (goes to the model, which demands the same of the reload)
        let mut sections_out = Vec::new(); // what the reloaded store answers
        let mut load_code = 1;
        let view_orig = store_view(&store);
        let mut view_back = a(-9);
        match loaded {
            Some(Ok(mut store2)) => {
                let back = observe_full(&store2, &pool);
                for (o, r) in orig.iter().zip(back.iter()) {
                    if o == r {
                        // equal: compact digests on both sides
                        sections_in.push(digest(o));
                        sections_out.push(digest(r));
                    } else {
                        sections_in.push(o.clone());
                        sections_out.push(r.clone());
                    }
                }
                // a second generation must be loadable too, answer the same, and its file must be the
                // first one up to the order of map entries (HashMap iteration order is not fixed)
                let view2 = store_view(&store2);
                let fname2 = format!("case{}b.store.stam.cbor", n % 4);
                let path2 = format!("{}/{}", self.dir, fname2);
                let tree1 = canonical_tree(&bytes);
                // the other way into the CBOR loader: any file name, data format given in the Config
                let fname_b = format!("case{}.bin", n % 4);
                let path_b = format!("{}/{}", self.dir, fname_b);
                let other_route = guard(|| {
                    if std::fs::write(&path_b, &bytes).is_err() {
                        return a(-5);
                    }
                    match AnnotationStore::from_file(fname_b.as_str(), self.load_config(opts).with_dataformat(DataFormat::CBOR)) {
                        Ok(sb) => b(observe_full(&sb, &pool) == back && store_view(&sb) == view2),
                        Err(_) => a(0),
                    }
                })
                .unwrap_or_else(|| a(-1));
                let _ = std::fs::remove_file(&path_b);
                let second = guard(|| {
                    let s2 = &mut store2;
                    s2.set_filename(fname2.as_str());
                    if s2.save().is_err() {
                        return (a(0), a(0));
                    }
                    let bytes2 = std::fs::read(&path2).unwrap_or_default();
                    // the stored file name differs by construction: compare with it patched back
                    let same_file = match (tree1.clone(), canonical_tree(&bytes2)) {
                        (Some(Item::Arr(mut t1)), Some(Item::Arr(mut t2))) if t1.len() == t2.len() && t1.len() > 200 => {
                            t1[200] = Item::Simple(22);
                            t2[200] = Item::Simple(22);
                            // debug (0) and shrink_to_fit (5) of the store's Config are documented to
                            // come from the Config given to from_file
                            for t in [&mut t1, &mut t2] {
                                if let Item::Arr(c) = &mut t[1] {
                                    if c.len() > 5 {
                                        c[0] = Item::Simple(22);
                                        c[5] = Item::Simple(22);
                                    }
                                }
                            }
                            b(t1 == t2)
                        }
                        _ => a(0),
                    };
                    match AnnotationStore::from_file(fname2.as_str(), self.load_config(opts)) {
                        Ok(s3) => {
                            let third = observe_full(&s3, &pool);
                            (b(third == back), same_file)
                        }
                        Err(_) => (a(0), same_file),
                    }
                })
                .unwrap_or_else(|| (a(-1), a(-1)));
                let _ = std::fs::remove_file(&path2);
                sections_in.push(a(1));
                sections_out.push(second.0);
                sections_in.push(a(1));
                sections_out.push(second.1);
                sections_in.push(a(1));
                sections_out.push(other_route);
                // an insertion without identifiers behaves the same on the saved and the loaded store
                let p_orig = post_load(&mut store);
                let p_back = post_load(&mut store2);
                sections_in.push(p_orig);
                sections_out.push(p_back);
                view_back = view2;
            }
            Some(Err(_)) => {
                load_code = 0;
                for o in orig.iter() {
                    sections_in.push(digest(o));
                    sections_out.push(err_sx());
                }
                for _ in 0..4 {
                    sections_in.push(a(1));
                    sections_out.push(a(0));
                }
            }
            None => {
                load_code = -1;
                for o in orig.iter() {
                    sections_in.push(digest(o));
                    sections_out.push(panic_sx());
                }
                for _ in 0..4 {
                    sections_in.push(a(1));
                    sections_out.push(a(-1));
                }
            }
        }
        let _ = std::fs::remove_file(&path);
        let bytes_sx = l(bytes.iter().map(|x| a(*x as i64)).collect());
        let input = l(vec![l(sections_in), bytes_sx.clone(), view_orig]);
        let mut implout = sections_out;
        // save and load succeeded
        implout.push(l(vec![a(saved), a(load_code)]));
        // the file, for the byte-exact comparison with the model's re-encoding
        implout.push(bytes_sx);
        // the file is one well-formed CBOR data item (checked by an independent strict reader)
        implout.push(b(strict_one_item(&bytes)));
        // the index dump of the reloaded store
        implout.push(view_back);
        (input, implout, nontrivial)
    }
}

/// strict reader: exactly one definite-length data item, nothing left over
fn strict_one_item(b: &[u8]) -> bool {
    fn arg(b: &[u8], pos: &mut usize, ai: u8) -> Option<u64> {
        let n = match ai {
            0..=23 => return Some(ai as u64),
            24 => 1,
            25 => 2,
            26 => 4,
            27 => 8,
            _ => return None,
        };
        if *pos + n > b.len() {
            return None;
        }
        let mut v: u64 = 0;
        for i in 0..n {
            v = (v << 8) | b[*pos + i] as u64;
        }
        *pos += n;
        Some(v)
    }
    fn item(b: &[u8], pos: &mut usize, depth: usize) -> bool {
        if depth > 200 || *pos >= b.len() {
            return false;
        }
        let h = b[*pos];
        *pos += 1;
        let (m, ai) = (h >> 5, h & 31);
        match m {
            0 | 1 => arg(b, pos, ai).is_some(),
            2 | 3 => match arg(b, pos, ai) {
                Some(n) if *pos + n as usize <= b.len() => {
                    *pos += n as usize;
                    true
                }
                _ => false,
            },
            4 | 5 => match arg(b, pos, ai) {
                Some(n) => {
                    let k = if m == 5 { 2 * n } else { n };
                    for _ in 0..k {
                        if !item(b, pos, depth + 1) {
                            return false;
                        }
                    }
                    true
                }
                None => false,
            },
            6 => arg(b, pos, ai).is_some() && item(b, pos, depth + 1),
            _ => match ai {
                20..=23 => true,
                25 => {
                    *pos += 2;
                    *pos <= b.len()
                }
                26 => {
                    *pos += 4;
                    *pos <= b.len()
                }
                27 => {
                    *pos += 8;
                    *pos <= b.len()
                }
                _ => false,
            },
        }
    }
    let mut pos = 0;
    item(b, &mut pos, 0) && pos == b.len()
}

/// bit 0 generate_ids on, bit 1 strip_temp_ids off, bits 2..7 one reverse index switched off each
fn flags(rng: &mut Rng) -> i64 {
    let mut f = 0i64;
    if rng.chance(1, 3) {
        f |= 1;
    }
    if rng.chance(1, 6) {
        f |= 2;
    }
    if rng.chance(1, 5) {
        f |= 4 << rng.below(6);
    }
    f
}

/// build configuration and, independently, the configuration given to from_file
fn opts(rng: &mut Rng) -> Sx {
    let mi = *rng.pick(&[0i64, 1, 2, 3, 7, 100]);
    let build = vec![a(mi), a(if rng.chance(1, 4) { 0 } else { 1 }), a(flags(rng))];
    let mut v = build;
    if rng.chance(3, 4) {
        let lmi = *rng.pick(&[0i64, 1, 2, 3, 7, 100]);
        let lf = flags(rng) | if rng.chance(1, 3) { 256 } else { 0 };
        v.push(l(vec![a(lmi), a(rng.below(2) as i64), a(lf)]));
    }
    l(v)
}

/// a history from the shared generator, with the C11-only operations mixed in
fn history(rng: &mut Rng, max_ops: usize, removals: usize) -> Vec<Sx> {
    let cfg = storegen::GenCfg { max_ops, removals, invalid: 12, values: true };
    let mut ops = storegen::gen_history(rng, &cfg);
    // stand-off members first (their ids do not clash with the generator's small tokens often)
    if rng.chance(1, 3) {
        ops.insert(0, l(vec![a(21), a(rng.range(0, 5)), a(rng.range(1, 9))]));
    }
    if rng.chance(1, 6) {
        ops.insert(0, l(vec![a(22), a(rng.range(0, 3))]));
    }
    if rng.chance(1, 3) {
        let at = rng.below(ops.len() + 1);
        ops.insert(at, l(vec![a(20), a(rng.range(0, 3))]));
    }
    if rng.chance(1, 4) {
        let at = rng.below(ops.len() + 1);
        let secs = *rng.pick(&[0i64, 1, 951782400, 1709208000, 4102444799, -1, -86400 * 365 * 80]);
        let ns = *rng.pick(&[0i64, 0, 500_000_000, 123_456_789, 1000]);
        ops.insert(at, l(vec![a(23), a(rng.range(0, 3)), a(secs), a(rng.range(-48, 56)), a(ns)]));
    }
    if rng.chance(1, 5) {
        let at = rng.below(ops.len() + 1);
        let (hi, lo) = *rng.pick(&[
            (0x7ff8_0000i64, 0i64),      // NaN
            (0x7ff0_0000, 0),            // +inf
            (0xfff0_0000, 0),            // -inf
            (0x8000_0000, 0),            // -0.0 / isize::MIN
            (0, 1),                      // smallest subnormal / 1
            (0x7fff_ffff, 0xffff_ffff),  // a NaN payload / isize::MAX
            (0xffff_ffff, 0xffff_ffff),  // a NaN / -1
            (0x3ff0_0000, 0),            // 1.0
            (0, 24), (0, 255), (0, 256), (0, 65535), (0, 65536), (1, 0), // boundaries of the head widths
            (0xffff_ffff, 0xffff_ffe8), (0xffff_ffff, 0xffff_ff00),
        ]);
        ops.insert(at, l(vec![a(24), a(rng.range(0, 3)), a(rng.below(2) as i64), a(hi), a(lo)]));
    }
    if rng.chance(1, 12) {
        // a text longer than 255 bytes (3-byte string head), many text selections
        ops.insert(0, l(vec![a(0), a(rng.range(0, 5)), a(rng.range(90, 300))]));
    }
    ops
}

/// consecutive annotations on one resource and complex selectors over them (triggers the internal
/// range compression for annotations, with and without text), then removals
fn history_chain(rng: &mut Rng) -> Vec<Sx> {
    let k = 2 + rng.below(4);
    let len = 2 * k + rng.below(3);
    let mut ops = vec![l(vec![a(0), a(0), a(len as i64)])];
    let cur = |n: i64| l(vec![a(0), a(n)]);
    for i in 0..k {
        let tgt = l(vec![a(0), l(vec![a(0), a(0)]), cur(2 * i as i64), cur(2 * i as i64 + 1 + rng.below(2) as i64)]);
        let datas = if rng.chance(1, 2) { vec![l(vec![l(vec![a(0), a(0)]), a(-1), l(vec![a(0), a(rng.below(2) as i64)]), l(vec![a(2), a(rng.below(3) as i64)])])] } else { vec![] };
        ops.push(l(vec![a(3), a(i as i64), tgt, l(datas)]));
    }
    for _ in 0..1 + rng.below(3) {
        let kind = 1 + rng.below(3) as i64;
        let lo = rng.below(k - 1);
        let hi = lo + 1 + rng.below(k - lo - 1);
        let with_text = rng.chance(1, 2);
        let mut v = vec![a(7), a(kind)];
        for h in lo..=hi {
            let r = l(vec![a(1), a(h as i64)]);
            if with_text {
                v.push(l(vec![a(2), r, cur(0), if rng.chance(1, 2) { l(vec![a(1), a(0)]) } else { cur(1) }]));
            } else {
                v.push(l(vec![a(1), r]));
            }
        }
        ops.push(l(vec![a(3), a(-1), l(v), l(vec![])]));
    }
    if rng.chance(1, 3) {
        ops.push(l(vec![a(20), a(rng.range(0, 3))]));
    }
    for _ in 0..rng.below(3) {
        ops.push(l(vec![a(4), l(vec![a(1), a(rng.below(k + 3) as i64)])]));
    }
    ops
}

pub fn generate(out: &mut Out, tier: &str, seed: u64) {
    let thorough = tier == "thorough";
    let ctx = Ctx::new();
    let mut rng = Rng::new(seed ^ 0xC11);
    let emit = |out: &mut Out, req: Sx, key: &str| {
        let (i, o, nt) = ctx.exec(&req);
        // histogram: operation kinds, selector kinds, outcome of save/load
        for op in req.nth(0).list() {
            out.count(&format!("op{}", op.nth(0).int()));
        }
        let sl = &o[o.len() - 4];
        out.count(&format!("save{}_load{}", sl.nth(0).int(), sl.nth(1).int()));
        out.count(key);
        for c in ctx.last_cov.borrow().iter() {
            out.count(&format!("stores_with_{}", c));
        }
        out.case(&i, &o, nt, &req);
    };
    // fixed small stores: empty, one resource, every selector kind once
    emit(out, l(vec![l(vec![]), l(vec![a(100), a(1)])]), "fixed");
    emit(out, l(vec![l(vec![l(vec![a(0), a(0), a(5)])]), l(vec![a(1), a(1)])]), "fixed");
    // complex selectors over consecutive annotations (internal RangedAnnotationSelector, with and
    // without text), followed by removals that leave gaps
    for req in [
        "(((0 0 8) (3 0 (0 (0 0) (0 0) (0 2)) ()) (3 1 (0 (0 0) (0 2) (0 4)) ()) (3 2 (0 (0 0) (0 4) (0 6)) ()) (3 3 (7 1 (1 (1 0)) (1 (1 1)) (1 (1 2))) ())) (100 1))",
        "(((0 0 8) (3 0 (0 (0 0) (0 0) (0 2)) ()) (3 1 (0 (0 0) (0 2) (0 4)) ()) (3 2 (0 (0 0) (0 4) (0 6)) ()) (3 4 (7 2 (2 (1 0) (0 0) (0 1)) (2 (1 1) (0 0) (0 1)) (2 (1 2) (0 0) (0 1))) ())) (2 1))",
        "(((0 0 8) (3 0 (0 (0 0) (0 0) (0 2)) ()) (3 1 (0 (0 0) (0 2) (0 4)) ()) (3 2 (0 (0 0) (0 4) (0 6)) ()) (3 3 (7 3 (1 (1 0)) (1 (1 1)) (1 (1 2))) ()) (3 5 (7 1 (2 (1 0) (0 0) (1 0)) (2 (1 1) (0 0) (1 0))) ()) (20 2) (4 (1 1))) (3 0))",
        "(((21 1 6) (22 0) (23 0 951782400 4 500000000) (3 0 (0 (0 1) (0 1) (1 -1)) (((0 0) -1 (0 0) (2 1)))) (3 1 (5 (0 0) (0 0)) ()) (3 2 (6 (0 0) (1 0)) ()) (20 0)) (1 1))",
    ] {
        emit(out, crate::sx::parse(req).unwrap(), "fixed");
    }
    let n_add = if thorough { 10000 } else { 500 };
    let n_rem = if thorough { 20000 } else { 900 };
    for _ in 0..n_add {
        let h = history(&mut rng, 14, 0);
        let o = opts(&mut rng);
        emit(out, l(vec![l(h), o]), "additions_only");
    }
    for _ in 0..(if thorough { 3000 } else { 150 }) {
        let h = history_chain(&mut rng);
        let o = opts(&mut rng);
        emit(out, l(vec![l(h), o]), "annotation_chains");
    }
    for _ in 0..n_rem {
        let h = history(&mut rng, 24, 4);
        let o = opts(&mut rng);
        emit(out, l(vec![l(h), o]), "with_removals");
    }
    let _ = std::fs::remove_dir_all(&ctx.dir);
}

pub const RULE: &str = "Seeded random histories from the shared store generator (add_resource / add_dataset / insert_data / annotate with all selector kinds incl. relative offsets and complex selectors with range compression / remove_annotation / remove_data / remove_key (strict and not) / remove_resource / remove_dataset, ids and handles, one in 12 references invalid) with protect_text (4 modes) and stand-off resources/datasets mixed in; the store is BUILT with a configuration drawn at random (milestone interval in {100,1,2,3,7}, use_include, generate_ids, strip_temp_ids, one of six reverse indices switched off) and, in 3 of 4 cases, LOADED with an independently drawn one (plus shrink_to_fit off). Each final store is saved with save() to *.store.stam.cbor, loaded with from_file, loaded again through the other route (any file name + dataformat CBOR in the Config), saved and loaded once more; finally the same id-less annotate() and insert_data() run on the saved and on the loaded store (outcome, handles, length of generated ids, lookups and configuration afterwards). One evaluation = one compared section (6 observation sections incl. the stored configuration of the store and of every resource and dataset: every item by handle with all reverse lookups and id resolution; texts, textselections() forward and reverse, utf8byte/utf8byte_to_charpos at every position; find_data pools; related_text of every known selection x 10 operators; a STAMQL query pool instantiated with the store's ids; STAM JSON digest, validate_text, index_totalcount, config switches), the second generation, save/load status, the file bytes against the model's re-encoding under the extracted schema, strict well-formedness of the file. Non-trivial = the store has annotations and was saved. distinct = distinct (observation digests, file bytes).";

pub const EXHAUSTIVE: bool = false;
