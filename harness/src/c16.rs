//! C16: transposition preserves text.  Builds texts sharing fragments, a (simple or complex)
//! transposition between them and a source annotation through the public API, transposes,
//! adds the returned annotations, reads the new transposition back and transposes back.
use crate::out::{guard, Out};
use crate::rng::Rng;
use crate::sx::{a, b, l, Sx};
use stam::*;

pub struct Ctx {}

type Frag = (usize, usize, usize); // (resource index, begin, end)

fn frag_sx(f: &Frag) -> Sx {
    l(vec![a(f.0 as i64), a(f.1 as i64), a(f.2 as i64)])
}
fn frags_sx(v: &[Frag]) -> Sx {
    l(v.iter().map(frag_sx).collect())
}
fn sx_frag(x: &Sx) -> Frag {
    (x.nth(0).int() as usize, x.nth(1).int() as usize, x.nth(2).int() as usize)
}

fn rid(i: usize) -> String {
    format!("r{}", i)
}

fn tsel_builder(f: &Frag) -> SelectorBuilder<'static> {
    SelectorBuilder::textselector(rid(f.0), Offset::simple(f.1, f.2))
}

/// one text selector or a complex selector over several (0 Directional, 1 Multi, 2 Composite)
fn target_of_kind(frags: &[Frag], kind: i64) -> SelectorBuilder<'static> {
    if frags.len() == 1 {
        tsel_builder(&frags[0])
    } else {
        let subs: Vec<SelectorBuilder<'static>> = frags.iter().map(tsel_builder).collect();
        match kind {
            1 => SelectorBuilder::MultiSelector(subs),
            2 => SelectorBuilder::CompositeSelector(subs),
            _ => SelectorBuilder::DirectionalSelector(subs),
        }
    }
}
fn target_of(frags: &[Frag]) -> SelectorBuilder<'static> {
    target_of_kind(frags, 0)
}

fn read_tsels(ann: &ResultItem<Annotation>) -> Vec<Frag> {
    ann.textselections().map(|t| (t.resource().handle().as_usize(), t.begin(), t.end())).collect()
}

/// the sides of a transposition as the API presents them: the annotations it targets (complex)
/// or, when there are none, one side per text selection (simple)
fn read_sides(via: &ResultItem<Annotation>) -> (bool, Vec<(Option<String>, Vec<Frag>)>) {
    let anns: Vec<ResultItem<Annotation>> = via.annotations_in_targets(AnnotationDepth::One).collect();
    if anns.is_empty() {
        (false, read_tsels(via).into_iter().map(|f| (None, vec![f])).collect())
    } else {
        (true, anns.iter().map(|s| (s.id().map(|x| x.to_string()), read_tsels(s))).collect())
    }
}

/// what must not change when transpose() is called (it takes the store by shared reference;
/// this observes it anyway): the serialisation and the text selections known per resource
fn snapshot(store: &AnnotationStore) -> (usize, Vec<usize>, String) {
    (
        store.annotations_len(),
        store.resources().map(|r| r.textselections().count()).collect(),
        store.to_json_string(&Config::default()).unwrap_or_default(),
    )
}

/// 1: the source annotation itself is the side, 2: a new annotation made for the source side, 0: a target side
fn source_flag(id: &Option<String>, srcid: &str) -> i64 {
    match id {
        Some(s) if s == srcid => 1,
        Some(s) if s.ends_with("-transpositionsource") => 2,
        _ => 0,
    }
}

/// observation of one transpose + annotate_from_iter + read back:
///   (0 u)                     Err                       u = store unchanged by the call
///   (1 u (side ...))          Ok, annotations added     side = (flag (res b e)...), flag 1 = the source side
///   (2 u)                     Ok, but adding the returned annotations failed
///   (3 u)                     Ok and added, but the announced transposition cannot be read back
///   (-1)                      panic
/// idmode: which identifiers the caller supplies besides the transposition id: 0 all (every target
/// side, the resegmentation), 1 none (the library generates them), 2 only the first target side
fn transpose_obs(store: &mut AnnotationStore, srcid: &str, srch: Option<AnnotationHandle>, mode: i64, viaid: &str, side: i64, newid: &str, tprefix: &str, nsides: usize, idmode: i64) -> Sx {
    let before = snapshot(store);
    let config = TransposeConfig {
        source_side: if side < 0 { TranspositionSide::Auto } else { TranspositionSide::ByIndex(side as usize) },
        transposition_id: Some(newid.to_string()),
        resegmentation_id: if idmode == 0 { Some(format!("{}-reseg", newid)) } else { None },
        target_side_ids: (0..match idmode {
            0 => nsides,
            2 => 1,
            _ => 0,
        })
            .map(|i| format!("{}{}", tprefix, i))
            .collect(),
        ..Default::default()
    };
    let r = guard(|| {
        let via = store.annotation(viaid).expect("via");
        // a source annotation without public id is reached through its handle
        let source = match srch {
            Some(h) => store.annotation(h).expect("source"),
            None => store.annotation(srcid).expect("source"),
        };
        if mode == 0 || mode == 2 {
            source.transpose(&via, config)
        } else {
            let tset = source.textselectionset().expect("source text selection set");
            tset.transpose(&via, config)
        }
    });
    let unchanged = b(snapshot(store) == before);
    match r {
        None => l(vec![a(-1)]),
        Some(Err(_)) => l(vec![a(0), unchanged]),
        Some(Ok(builders)) => {
            // every returned annotation is added on its own: all must be accepted, as that many new
            // annotations with pairwise distinct public ids (seen through the store)
            let nbuilders = builders.len();
            let nbefore = store.annotations_len();
            let added = guard(|| {
                let mut handles = Vec::new();
                for builder in builders {
                    match store.annotate(builder) {
                        Ok(h) => handles.push(h),
                        Err(e) => return Err(e),
                    }
                }
                Ok(handles)
            });
            let distinct = |store: &AnnotationStore, hs: &Vec<AnnotationHandle>| -> bool {
                let mut ids: Vec<String> = hs.iter().filter_map(|h| store.annotation(*h)).filter_map(|x| x.id().map(|s| s.to_string())).collect();
                let n = ids.len();
                ids.sort();
                ids.dedup();
                let mut hh: Vec<usize> = hs.iter().map(|h| h.as_usize()).collect();
                hh.sort();
                hh.dedup();
                n == hs.len() && ids.len() == n && hh.len() == n
            };
            match added {
                None => l(vec![a(-1)]),
                Some(Err(_)) => l(vec![a(2), unchanged]),
                Some(Ok(hs)) if hs.len() != nbuilders || store.annotations_len() != nbefore + nbuilders || !distinct(store, &hs) => l(vec![a(2), unchanged]),
                Some(Ok(_)) => match store.annotation(newid) {
                    None => l(vec![a(3), unchanged]),
                    Some(t2) => {
                        let (complex, sides) = read_sides(&t2);
                        if !complex {
                            return l(vec![a(3), unchanged]);
                        }
                        let sx: Vec<Sx> = sides
                            .iter()
                            .map(|(id, frags)| {
                                let mut v = vec![a(source_flag(id, srcid))];
                                v.extend(frags.iter().map(frag_sx));
                                l(v)
                            })
                            .collect();
                        l(vec![a(1), unchanged, l(sx)])
                    }
                },
            }
        }
    }
}

impl Ctx {
    pub fn new() -> Self {
        Ctx {}
    }

    /// request: (texts (kind sides) (res ((b e)...)) (side mode))
    ///   texts = ((codepoint ...) ...)            resource i gets the id "r<i>"
    ///   kind 0: simple transposition, sides = ((res b e) ...)        one fragment per side
    ///   kind 1: complex transposition, sides = (((res b e) ...) ...) one annotation per side
    ///   source annotation "src" over resource res with the listed ranges (in that order)
    ///   side = -1: TranspositionSide::Auto, i: ByIndex(i); mode 0: transpose the annotation, 1: its text selection set, 2: the annotation, which has no public id;
    ///   optional third element: selector of a multi-range source 0 Directional (default), 1 Multi, 2 Composite;
    ///   optional fourth: identifiers the caller leaves to the library: 0 only that of a copied/resegmented source
    ///   (default), 1 also those of every target side and of the resegmentation, 2 as 1 but the first target side is named
    /// model input: (texts (kind sides-as-read-back) (res ranges-as-read-back) (side mode) fwd back_byindex back_auto)
    /// sub-cases: 0 forward; 1 back over the new transposition with ByIndex(j) for every target side j;
    ///            2 the same with Auto
    pub fn exec(&self, req: &Sx) -> (Sx, Vec<Sx>, bool) {
        let texts: Vec<String> = req.nth(0).list().iter().map(|t| t.string()).collect();
        let kind = req.nth(1).nth(0).int();
        let srcres = req.nth(2).nth(0).int() as usize;
        let srcranges: Vec<Frag> = req.nth(2).nth(1).list().iter().map(|p| (srcres, p.nth(0).int() as usize, p.nth(1).int() as usize)).collect();
        let side = req.nth(3).nth(0).int();
        let mode = req.nth(3).nth(1).int();
        let selkind = req.nth(3).nth(2).int();
        let idmode = req.nth(3).nth(3).int();
        let skip = |why: i64| (l(vec![a(-1), a(why)]), vec![], false);

        let mut store = AnnotationStore::default().with_id("c16");
        for (i, t) in texts.iter().enumerate() {
            store = match store.with_resource(TextResourceBuilder::new().with_id(rid(i)).with_text(t.clone())) {
                Ok(s) => s,
                Err(_) => return skip(1),
            };
        }
        let nsides;
        if kind == 0 {
            let frags: Vec<Frag> = req.nth(1).nth(1).list().iter().map(sx_frag).collect();
            nsides = frags.len();
            let r = store.annotate(
                AnnotationBuilder::new()
                    .with_id("T")
                    .with_target(SelectorBuilder::DirectionalSelector(frags.iter().map(tsel_builder).collect()))
                    .with_data("https://w3id.org/stam/extensions/stam-transpose/", "Transposition", DataValue::Null),
            );
            if r.is_err() {
                return skip(2);
            }
        } else {
            let sides: Vec<Vec<Frag>> = req.nth(1).nth(1).list().iter().map(|s| s.list().iter().map(sx_frag).collect()).collect();
            nsides = sides.len();
            for (i, s) in sides.iter().enumerate() {
                if s.is_empty() || store.annotate(AnnotationBuilder::new().with_id(format!("S{}", i)).with_target(target_of(s))).is_err() {
                    return skip(3);
                }
            }
            let r = store.annotate(
                AnnotationBuilder::new()
                    .with_id("T")
                    .with_target(SelectorBuilder::DirectionalSelector(
                        (0..sides.len()).map(|i| SelectorBuilder::annotationselector(format!("S{}", i), None)).collect(),
                    ))
                    .with_data("https://w3id.org/stam/extensions/stam-transpose/", "Transposition", DataValue::Null),
            );
            if r.is_err() {
                return skip(4);
            }
        }
        if srcranges.is_empty() {
            return skip(5);
        }
        // mode 2: the source annotation has no public id (the store default: ids are not generated)
        let srcbuilder = AnnotationBuilder::new().with_target(target_of_kind(&srcranges, selkind)).with_data("s", "k", "v");
        let srch: Option<AnnotationHandle> = match store.annotate(if mode == 2 { srcbuilder } else { srcbuilder.with_id("src") }) {
            Ok(h) => {
                if mode == 2 {
                    if store.annotation(h).map(|x| x.id().is_some()).unwrap_or(true) {
                        return skip(6);
                    }
                    Some(h)
                } else {
                    None
                }
            }
            Err(_) => return skip(5),
        };

        // what the API shows of the input: this is what the model gets
        let (via_sx, src_sx) = {
            let via = store.annotation("T").unwrap();
            let (complex, sides) = read_sides(&via);
            let src = match srch {
                Some(h) => store.annotation(h).unwrap(),
                None => store.annotation("src").unwrap(),
            };
            let sr = read_tsels(&src);
            (
                l(vec![b(complex), l(sides.iter().map(|(_, f)| frags_sx(f)).collect())]),
                l(vec![a(srcres as i64), l(sr.iter().map(|f| l(vec![a(f.1 as i64), a(f.2 as i64)])).collect())]),
            )
        };

        let fwd = transpose_obs(&mut store, "src", srch, mode, "T", side, "T2", "t", nsides, idmode);
        let mut back_idx = Vec::new();
        let mut back_auto = Vec::new();
        if fwd.nth(0).int() == 1 {
            let ids: Vec<(usize, String)> = {
                let t2 = store.annotation("T2").unwrap();
                let (_, sides) = read_sides(&t2);
                sides.iter().enumerate().filter(|(_, (id, _))| source_flag(id, "src") == 0).map(|(j, (id, _))| (j, id.clone().unwrap_or_default())).collect()
            };
            for (j, id) in &ids {
                back_idx.push(transpose_obs(&mut store, id, None, 0, "T2", *j as i64, &format!("T3i{}", j), &format!("bi{}_", j), nsides, idmode));
                back_auto.push(transpose_obs(&mut store, id, None, 0, "T2", -1, &format!("T3a{}", j), &format!("ba{}_", j), nsides, idmode));
            }
        }
        let obs = vec![fwd.clone(), l(back_idx), l(back_auto)];
        let input = l(vec![
            l(texts.iter().map(|t| crate::sx::text(t)).collect()),
            via_sx,
            src_sx,
            req.nth(3).clone(),
            obs[0].clone(),
            obs[1].clone(),
            obs[2].clone(),
        ]);
        let nt = fwd.nth(0).int() == 1;
        (input, obs, nt)
    }
}

fn req_sx(texts: &[String], kind: i64, sides: &[Vec<Frag>], srcres: usize, ranges: &[(usize, usize)], side: i64, mode: i64) -> Sx {
    req_sx_k(texts, kind, sides, srcres, ranges, side, mode, 0)
}

fn req_sx_k(texts: &[String], kind: i64, sides: &[Vec<Frag>], srcres: usize, ranges: &[(usize, usize)], side: i64, mode: i64, selkind: i64) -> Sx {
    req_sx_ki(texts, kind, sides, srcres, ranges, side, mode, selkind, 0)
}

fn req_sx_ki(texts: &[String], kind: i64, sides: &[Vec<Frag>], srcres: usize, ranges: &[(usize, usize)], side: i64, mode: i64, selkind: i64, idmode: i64) -> Sx {
    let sides_sx = if kind == 0 { l(sides.iter().map(|s| frag_sx(&s[0])).collect()) } else { l(sides.iter().map(|s| frags_sx(s)).collect()) };
    l(vec![
        l(texts.iter().map(|t| crate::sx::text(t)).collect()),
        l(vec![a(kind), sides_sx]),
        l(vec![a(srcres as i64), l(ranges.iter().map(|(x, y)| l(vec![a(*x as i64), a(*y as i64)])).collect())]),
        if idmode != 0 {
            l(vec![a(side), a(mode), a(selkind), a(idmode)])
        } else if selkind == 0 {
            l(vec![a(side), a(mode)])
        } else {
            l(vec![a(side), a(mode), a(selkind)])
        },
    ])
}

struct Layout {
    name: &'static str,
    texts: Vec<String>,
    kind: i64,
    sides: Vec<Vec<Frag>>,
}

fn layouts() -> Vec<Layout> {
    let s = |x: &str| x.to_string();
    vec![
        // two fragments, second text has filler around them
        Layout { name: "two_frag", texts: vec![s("abcdefgh"), s("xabcdyefgh")], kind: 1, sides: vec![vec![(0, 0, 4), (0, 4, 8)], vec![(1, 1, 5), (1, 6, 10)]] },
        // the same, sides list their fragments in reverse order
        Layout { name: "listed_reversed", texts: vec![s("abcdefgh"), s("xabcdyefgh")], kind: 1, sides: vec![vec![(0, 4, 8), (0, 0, 4)], vec![(1, 6, 10), (1, 1, 5)]] },
        // three fragments, listed 3 1 2, second text re-orders them
        Layout { name: "three_reordered", texts: vec![s("abcdefghi"), s("ghiabcdef")], kind: 1, sides: vec![vec![(0, 6, 9), (0, 0, 3), (0, 3, 6)], vec![(1, 0, 3), (1, 3, 6), (1, 6, 9)]] },
        // three sides, two of them in the same resource (duplicated fragment)
        Layout { name: "three_sides_dup", texts: vec![s("abcdef"), s("abcdabcd")], kind: 1, sides: vec![vec![(0, 0, 4)], vec![(1, 0, 4)], vec![(1, 4, 8)]] },
        // zero-width fragments
        Layout { name: "zero_width_frag", texts: vec![s("abcdef"), s("xabcdy")], kind: 1, sides: vec![vec![(0, 2, 2), (0, 0, 4), (0, 4, 4)], vec![(1, 3, 3), (1, 1, 5), (1, 5, 5)]] },
        // overlapping fragments within a side
        Layout { name: "overlapping_frags", texts: vec![s("abcdef"), s("abcdcdef")], kind: 1, sides: vec![vec![(0, 0, 4), (0, 2, 6)], vec![(1, 0, 4), (1, 4, 8)]] },
        // fragments with a gap between them in the source, adjacent in the target
        Layout { name: "gap", texts: vec![s("abcdefgh"), s("abcfgh")], kind: 1, sides: vec![vec![(0, 0, 3), (0, 5, 8)], vec![(1, 0, 3), (1, 3, 6)]] },
        // both sides in one resource (repeated phrase)
        Layout { name: "one_resource", texts: vec![s("abcxabc")], kind: 1, sides: vec![vec![(0, 0, 3)], vec![(0, 4, 7)]] },
        // a side that spans two resources
        Layout { name: "side_two_resources", texts: vec![s("abcd"), s("efgh"), s("abcdefgh")], kind: 1, sides: vec![vec![(0, 0, 4), (1, 0, 4)], vec![(2, 0, 4), (2, 4, 8)]] },
        // overlapping sides in one resource
        Layout { name: "overlapping_sides", texts: vec![s("ababab"), s("abab")], kind: 1, sides: vec![vec![(1, 0, 4)], vec![(0, 0, 4)], vec![(0, 2, 6)]] },
        // simple transpositions
        Layout { name: "simple_two", texts: vec![s("abcdef"), s("xabcdy")], kind: 0, sides: vec![vec![(0, 0, 4)], vec![(1, 1, 5)]] },
        Layout { name: "simple_three_dup", texts: vec![s("abcdef"), s("abcdabcd")], kind: 0, sides: vec![vec![(0, 0, 4)], vec![(1, 0, 4)], vec![(1, 4, 8)]] },
        Layout { name: "simple_one_resource", texts: vec![s("abcxabc")], kind: 0, sides: vec![vec![(0, 0, 3)], vec![(0, 4, 7)]] },
        // not a transposition: corresponding fragments differ in text / length (no demand, model = implementation only)
        Layout { name: "illformed_text", texts: vec![s("abcdef"), s("xyzuvw")], kind: 1, sides: vec![vec![(0, 0, 4)], vec![(1, 1, 5)]] },
        Layout { name: "illformed_length", texts: vec![s("abcdef"), s("abcdef")], kind: 1, sides: vec![vec![(0, 0, 4), (0, 4, 6)], vec![(1, 0, 2), (1, 2, 6)]] },
        Layout { name: "illformed_count", texts: vec![s("abcdef"), s("abcdef")], kind: 1, sides: vec![vec![(0, 0, 2), (0, 2, 4)], vec![(1, 0, 4)]] },
        Layout { name: "illformed_simple", texts: vec![s("abcdef"), s("abcdef")], kind: 0, sides: vec![vec![(0, 0, 4)], vec![(1, 0, 2)]] },
    ]
}

fn all_ranges(n: usize) -> Vec<(usize, usize)> {
    let mut v = Vec::new();
    for x in 0..=n {
        for y in x..=n {
            v.push((x, y));
        }
    }
    v
}

/// random pair/triple of texts sharing fragments: cut a base text, build the others by
/// re-ordering / dropping / duplicating the fragments and inserting filler
fn random_layout(rng: &mut Rng) -> (Vec<String>, i64, Vec<Vec<Frag>>) {
    let alpha: Vec<char> = if rng.chance(1, 3) { "ab".chars().collect() } else { "abcdeé𝄞 ".chars().collect() };
    let len = 4 + rng.below(12);
    let base: Vec<char> = (0..len).map(|_| *rng.pick(&alpha)).collect();
    // fragments of the base text: cut points, some gaps, now and then a zero-width or overlapping one
    let mut frs: Vec<(usize, usize)> = Vec::new();
    let mut pos = 0;
    while pos < len && frs.len() < 5 {
        if rng.chance(1, 4) {
            pos += 1 + rng.below(2); // gap
            if pos >= len {
                break;
            }
        }
        let w = 1 + rng.below((len - pos).min(5));
        frs.push((pos, pos + w));
        pos += w;
    }
    if frs.is_empty() {
        frs.push((0, len));
    }
    if rng.chance(1, 10) {
        let p = rng.below(len + 1);
        let at = rng.below(frs.len() + 1);
        frs.insert(at, (p, p));
    }
    if rng.chance(1, 10) {
        let x = rng.below(len);
        let y = x + 1 + rng.below(len - x);
        frs.push((x, y));
    }
    let simple = rng.chance(1, 5);
    if simple {
        frs.truncate(1);
    }
    // listing order of the fragments in the sides
    let mut order: Vec<usize> = (0..frs.len()).collect();
    if rng.chance(1, 2) {
        for i in (1..order.len()).rev() {
            let j = rng.below(i + 1);
            order.swap(i, j);
        }
    }
    let nother = if rng.chance(1, 4) { 2 } else { 1 };
    let mut texts: Vec<String> = vec![base.iter().collect()];
    let mut sides: Vec<Vec<Frag>> = vec![order.iter().map(|k| (0, frs[*k].0, frs[*k].1)).collect()];
    for _ in 0..nother {
        // textual order of the fragments in the derived text
        let mut place: Vec<usize> = (0..frs.len()).collect();
        if rng.chance(1, 2) {
            for i in (1..place.len()).rev() {
                let j = rng.below(i + 1);
                place.swap(i, j);
            }
        }
        let same_resource = rng.chance(1, 6);
        let (resix, mut t): (usize, Vec<char>) = if same_resource { (0, texts[0].chars().collect()) } else { (texts.len(), Vec::new()) };
        let mut at: Vec<(usize, usize)> = vec![(0, 0); frs.len()];
        for k in place {
            if rng.chance(1, 3) {
                for _ in 0..1 + rng.below(2) {
                    t.push(*rng.pick(&alpha));
                }
            }
            let b0 = t.len();
            t.extend(base[frs[k].0..frs[k].1].iter());
            at[k] = (b0, t.len());
        }
        if rng.chance(1, 3) {
            t.push('z');
        }
        let tx: String = t.iter().collect();
        if same_resource {
            texts[0] = tx;
        } else {
            texts.push(tx);
        }
        sides.push(order.iter().map(|k| (resix, at[*k].0, at[*k].1)).collect());
    }
    // now and then break well-formedness (no demand then; correspondence only)
    if rng.chance(1, 25) {
        let si = rng.below(sides.len());
        let fi = rng.below(sides[si].len());
        let f = sides[si][fi];
        let tl = texts[f.0].chars().count();
        if f.2 < tl {
            sides[si][fi] = (f.0, f.1, f.2 + 1);
        } else if f.1 < f.2 {
            sides[si][fi] = (f.0, f.1 + 1, f.2);
        }
    }
    if rng.chance(1, 2) {
        // source side not always first
        let k = rng.below(sides.len());
        sides.swap(0, k);
    }
    (texts, if simple { 0 } else { 1 }, sides)
}

fn random_source(rng: &mut Rng, texts: &[String], sides: &[Vec<Frag>]) -> (usize, Vec<(usize, usize)>) {
    let si = rng.below(sides.len());
    let f0 = *rng.pick(&sides[si]);
    let res = if rng.chance(1, 12) { rng.below(texts.len()) } else { f0.0 };
    let tl = texts[res].chars().count();
    let infrags: Vec<Frag> = sides[si].iter().filter(|f| f.0 == res).cloned().collect();
    let n = 1 + if rng.chance(1, 3) { 1 + rng.below(2) } else { 0 };
    let mut ranges = Vec::new();
    for _ in 0..n {
        let class = rng.below(10);
        let r = if infrags.is_empty() || class == 0 {
            // anywhere
            let x = rng.below(tl + 1);
            (x, x + rng.below(tl - x + 1))
        } else if class <= 4 {
            // inside one fragment
            let f = *rng.pick(&infrags);
            let w = f.2 - f.1;
            let x = f.1 + rng.below(w + 1);
            (x, x + rng.below(f.2 - x + 1))
        } else if class <= 7 {
            // from inside one fragment to inside another (spanning when they are adjacent)
            let f = *rng.pick(&infrags);
            let g = *rng.pick(&infrags);
            let x = f.1 + rng.below(f.2 - f.1 + 1);
            let y = g.1 + rng.below(g.2 - g.1 + 1);
            (x.min(y), x.max(y))
        } else {
            // partly outside: extend a fragment by one or two
            let f = *rng.pick(&infrags);
            let x = f.1.saturating_sub(rng.below(3));
            let y = (f.2 + rng.below(3)).min(tl);
            (x, y.max(x))
        };
        ranges.push(r);
    }
    (res, ranges)
}

pub fn generate(out: &mut Out, tier: &str, seed: u64) {
    let thorough = tier == "thorough";
    let ctx = Ctx::new();
    let emit = |out: &mut Out, req: Sx, key: &str| {
        let (i, o, nt) = ctx.exec(&req);
        if o.is_empty() {
            out.count("setup_refused");
            return;
        }
        match o[0].nth(0).int() {
            1 => out.count("forward_ok"),
            0 => out.count("forward_err"),
            _ => out.count("forward_other"),
        }
        out.case(&i, &o, nt, &req);
        out.count(key);
    };
    // exhaustive over the fixed layouts: every source resource, every single range, every
    // TranspositionSide (Auto, every index, one beyond), annotation and text selection set
    for lay in layouts() {
        let nsides = lay.sides.len() as i64;
        for res in 0..lay.texts.len() {
            let tl = lay.texts[res].chars().count();
            let rs = all_ranges(tl);
            for r in &rs {
                for side in -1..=nsides {
                    for mode in 0..3 {
                        emit(out, req_sx(&lay.texts, lay.kind, &lay.sides, res, &[*r], side, mode), lay.name);
                    }
                }
                // identifiers of the transposed annotations (and of the resegmentation) left to the library
                for idmode in 1..=2 {
                    for mode in 0..3 {
                        emit(out, req_sx_ki(&lay.texts, lay.kind, &lay.sides, res, &[*r], -1, mode, 0, idmode), lay.name);
                        out.count("generated_ids");
                        if nsides >= 3 {
                            out.count("generated_ids_three_sides");
                        }
                    }
                }
            }
            // two ranges: all ordered pairs over a grid of positions (every position in the thorough tier)
            let grid: Vec<(usize, usize)> = if thorough { rs.clone() } else { rs.iter().filter(|(x, y)| (x % 2 == 0 || *x == tl) && (y % 2 == 0 || *y == tl || y == x)).cloned().collect() };
            for r1 in &grid {
                for r2 in &grid {
                    emit(out, req_sx(&lay.texts, lay.kind, &lay.sides, res, &[*r1, *r2], -1, 0), lay.name);
                }
            }
        }
    }
    // seeded random layouts and sources
    let mut rng = Rng::new(seed);
    let nrand = if thorough { 120000 } else { 6000 };
    for _ in 0..nrand {
        let (texts, kind, sides) = random_layout(&mut rng);
        for _ in 0..3 {
            let (res, ranges) = random_source(&mut rng, &texts, &sides);
            let side = if rng.chance(3, 4) { -1 } else { rng.below(sides.len() + 1) as i64 };
            let mode = match rng.below(4) {
                0 | 1 => 0,
                2 => 1,
                _ => 2,
            };
            if mode == 2 {
                out.count("source_without_id");
            }
            let selkind = if ranges.len() > 1 && rng.chance(1, 3) { 1 + rng.below(2) as i64 } else { 0 };
            if selkind != 0 {
                out.count("source_multi_or_composite");
            }
            let idmode = if rng.chance(1, 2) { 0 } else { 1 + rng.below(2) as i64 };
            if idmode != 0 {
                out.count("generated_ids");
                if sides.len() >= 3 {
                    out.count("generated_ids_three_sides");
                }
            }
            emit(out, req_sx_ki(&texts, kind, &sides, res, &ranges, side, mode, selkind, idmode), if kind == 0 { "random_simple" } else { "random_complex" });
        }
    }
}

pub const RULE: &str = "exhaustive: 17 fixed layouts of 1-3 texts sharing fragments (adjacent fragments, sides listing them reversed / re-ordered, fragments re-ordered in the other text, three sides with two in one resource, zero-width fragments, overlapping fragments, gaps, both sides in one resource, a side spanning two resources, overlapping sides, simple transpositions with 2 and 3 sides, four ill-formed ones) x every resource as source x every single range 0<=b<=e<=len x TranspositionSide Auto / every index / one beyond x annotation with id / annotation without public id / text selection set, every single range also with the identifiers of the transposed annotations / the resegmentation left to the library (all of them, or all but the first target side), plus all ordered pairs of ranges over a position grid (every position in the thorough tier); random: texts over small alphabets (incl. multi-byte) cut into up to 5 fragments with gaps, now and then a zero-width or overlapping fragment, 1-2 derived texts (re-ordered, filler inserted, sometimes appended to the same resource), sides listed in random order, 1-3 source ranges of every position class (inside one fragment, between two fragments, partly outside, anywhere), multi-range sources as Directional, Multi or Composite selector. Half of the random cases leave identifiers to the library. Per case: transpose, every returned builder added with annotate() (all must be accepted as that many new annotations with pairwise distinct ids), new transposition read back through annotations_in_targets/textselections, store compared before/after transpose(), then every target side transposed back over the new transposition with ByIndex and with Auto. The property predicate (piecewise equal text on all sides, source side = the source cut into consecutive pieces, inside the text, right resources, coverage, unchanged store, exact offsets on the way back) is evaluated by the extracted specification on what the implementation returned; the model's answer is compared with the implementation's. Non-trivial = the forward transposition succeeded; distinct = distinct request lines.";

pub const EXHAUSTIVE: bool = true;
