//! C14: after an operation that returned an error, every observation of the store.
use crate::out::{guard, Out};
use crate::rng::Rng;
use crate::storegen::{aid, apply, cursor, dbuild, did, kid, new_store, observe, rid, sbuild, sid, value, GenCfg, Shadow};
use crate::sx::{a, l, Sx};
use stam::*;

pub struct Ctx {}

fn builder<'a>(x: &Sx) -> AnnotationBuilder<'a> {
    let mut b = AnnotationBuilder::new();
    if x.nth(0).int() >= 0 {
        b = b.with_id(aid(x.nth(0).int()));
    }
    if let Sx::L(_) = x.nth(1) {
        b = b.with_target(sbuild(x.nth(1)));
    }
    for d in x.nth(2).list() {
        b = b.with_data_builder(dbuild(d));
    }
    b
}

/// a reference as a string of a JSON document: the public id, or the temporary id for a handle
fn ref_str(x: &Sx, namer: fn(i64) -> String, letter: char) -> String {
    if x.nth(0).int() == 0 {
        namer(x.nth(1).int())
    } else {
        format!("!{}{}", letter, x.nth(1).int())
    }
}

fn selector_json(x: &Sx) -> Option<serde_json::Value> {
    use serde_json::json;
    let off = |b: &Sx, e: &Sx| json!({"@type": "Offset", "begin": serde_json::to_value(cursor(b)).ok(), "end": serde_json::to_value(cursor(e)).ok()});
    Some(match x.nth(0).int() {
        0 => json!({"@type": "TextSelector", "resource": ref_str(x.nth(1), rid, 'R'), "offset": off(x.nth(2), x.nth(3))}),
        1 => json!({"@type": "AnnotationSelector", "annotation": ref_str(x.nth(1), aid, 'A')}),
        2 => json!({"@type": "AnnotationSelector", "annotation": ref_str(x.nth(1), aid, 'A'), "offset": off(x.nth(2), x.nth(3))}),
        3 => json!({"@type": "ResourceSelector", "resource": ref_str(x.nth(1), rid, 'R')}),
        4 => json!({"@type": "DataSetSelector", "annotationset": ref_str(x.nth(1), sid, 'S')}),
        5 => json!({"@type": "DataKeySelector", "annotationset": ref_str(x.nth(1), sid, 'S'), "key": ref_str(x.nth(2), kid, 'K')}),
        6 => json!({"@type": "AnnotationDataSelector", "annotationset": ref_str(x.nth(1), sid, 'S'), "data": ref_str(x.nth(2), did, 'D')}),
        _ => {
            let subs: Option<Vec<serde_json::Value>> = x.list()[2..].iter().map(selector_json).collect();
            let t = match x.nth(1).int() {
                1 => "MultiSelector",
                2 => "CompositeSelector",
                _ => "DirectionalSelector",
            };
            json!({"@type": t, "selectors": subs?})
        }
    })
}

/// the builder as an element of a STAM JSON annotation list; None when the document cannot say it
/// (no target; a data item or key named by handle)
fn builder_json(x: &Sx) -> Option<serde_json::Value> {
    use serde_json::json;
    let target = match x.nth(1) {
        Sx::L(_) => selector_json(x.nth(1))?,
        _ => return None,
    };
    let mut data = Vec::new();
    for d in x.nth(2).list() {
        let mut o = serde_json::Map::new();
        o.insert("@type".into(), json!("AnnotationData"));
        o.insert("set".into(), json!(ref_str(d.nth(0), sid, 'S')));
        match d.nth(1) {
            Sx::A(_) => {}
            r if r.nth(0).int() == 0 => {
                o.insert("@id".into(), json!(did(r.nth(1).int())));
            }
            _ => return None,
        }
        match d.nth(2) {
            Sx::A(_) => {}
            r if r.nth(0).int() == 0 => {
                o.insert("key".into(), json!(kid(r.nth(1).int())));
            }
            _ => return None,
        }
        o.insert("value".into(), serde_json::to_value(value(d.nth(3))).ok()?);
        data.push(serde_json::Value::Object(o));
    }
    let mut o = serde_json::Map::new();
    o.insert("@type".into(), json!("Annotation"));
    if x.nth(0).int() >= 0 {
        o.insert("@id".into(), json!(aid(x.nth(0).int())));
    }
    o.insert("target".into(), target);
    o.insert("data".into(), serde_json::Value::Array(data));
    Some(serde_json::Value::Object(o))
}

/// op 16 = an ADD query through query_mut: (16 idtok kind settok keytok n)
///   ADD ANNOTATION ?new WITH [ID "a<idtok>";] DATA "s<settok>" "k<keytok>" n; TARGET ?x; { SELECT <kind> ?x }
/// with kind 0 = ANNOTATION, 1 = RESOURCE, 2 = DATASET: one new annotation per row (= per live item,
/// in handle order), all with the same id when one is given (so the second row fails).  The model is
/// given the batch of builders this stands for (an op 12).
pub fn add_query_batch(store: &AnnotationStore, op: &Sx) -> Sx {
    let idtok = op.nth(1).int();
    let data = l(vec![l(vec![a(0), op.nth(3).clone()]), a(-1), l(vec![a(0), op.nth(4).clone()]), l(vec![a(2), op.nth(5).clone()])]);
    let mut v = vec![a(12)];
    let targets: Vec<Sx> = match op.nth(2).int() {
        0 => store.annotations().map(|x| l(vec![a(1), l(vec![a(1), a(x.handle().as_usize() as i64)])])).collect(),
        1 => store.resources().map(|x| l(vec![a(3), l(vec![a(1), a(x.handle().as_usize() as i64)])])).collect(),
        _ => store.datasets().map(|x| l(vec![a(4), l(vec![a(1), a(x.handle().as_usize() as i64)])])).collect(),
    };
    let far = op.list().len() > 6 && op.nth(6).int() == 1 && op.nth(2).int() == 0;
    for t in targets {
        // TARGET ?x OFFSET 1000 1001: an annotation selector with an offset beyond any text
        let t = if far { l(vec![a(2), t.nth(1).clone(), l(vec![a(0), a(1000)]), l(vec![a(0), a(1001)])]) } else { t };
        v.push(l(vec![a(idtok), t, l(vec![data.clone()])]));
    }
    l(v)
}

fn add_query_string(op: &Sx) -> String {
    let idtok = op.nth(1).int();
    format!(
        "ADD ANNOTATION ?new WITH {}DATA \"{}\" \"{}\" {}; TARGET ?x{}; {{ SELECT {} ?x }}",
        if idtok >= 0 { format!("ID \"{}\"; ", aid(idtok)) } else { String::new() },
        sid(op.nth(3).int()),
        kid(op.nth(4).int()),
        op.nth(5).int(),
        if op.list().len() > 6 && op.nth(6).int() == 1 && op.nth(2).int() == 0 { " OFFSET 1000 1001" } else { "" },
        match op.nth(2).int() {
            0 => "ANNOTATION",
            1 => "RESOURCE",
            _ => "DATASET",
        }
    )
}

pub fn apply14(store: &mut AnnotationStore, op: &Sx) -> i64 {
    if op.nth(0).int() == 17 {
        // annotate_from_file on a document whose LAST element is structurally wrong (a number where the
        // target object belongs): the file is refused as a whole, whatever the elements before it say
        let docs: Option<Vec<serde_json::Value>> = op.list()[1..].iter().map(builder_json).collect();
        let mut docs = match docs {
            Some(d) => d,
            None => Vec::new(),
        };
        docs.push(serde_json::json!({"@type": "Annotation", "target": 17, "data": []}));
        let dir = std::env::temp_dir().join(format!("verif-c14-{}", std::process::id()));
        let _ = std::fs::create_dir_all(&dir);
        let path = dir.join("broken.annotations.stam.json");
        let mut r = 0;
        if std::fs::write(&path, serde_json::Value::Array(docs).to_string()).is_ok() {
            let p = path.to_string_lossy().to_string();
            r = match guard(|| store.annotate_from_file(p.as_str()).map(|_| ())) {
                None => -1,
                Some(Err(_)) => 0,
                Some(Ok(_)) => 1,
            };
        }
        let _ = std::fs::remove_file(&path);
        let _ = std::fs::remove_dir(&dir);
        return r;
    }
    if op.nth(0).int() == 16 {
        let qs = add_query_string(op);
        return match guard(|| {
            let (query, _) = Query::parse(qs.as_str())?;
            store.query_mut(query).map(|it| it.count())
        }) {
            None => -1,
            Some(Err(_)) => 0,
            Some(Ok(_)) => 1,
        };
    }
    if op.nth(0).int() == 15 {
        // annotate_from_file: the same batch read from a STAM JSON document; a batch the document
        // cannot express goes through annotate_from_iter (the model does not distinguish the two)
        let docs: Option<Vec<serde_json::Value>> = op.list()[1..].iter().map(builder_json).collect();
        if let Some(docs) = docs {
            let dir = std::env::temp_dir().join(format!("verif-c14-{}", std::process::id()));
            let _ = std::fs::create_dir_all(&dir);
            let path = dir.join("batch.annotations.stam.json");
            if std::fs::write(&path, serde_json::Value::Array(docs).to_string()).is_ok() {
                let p = path.to_string_lossy().to_string();
                let r = match guard(|| store.annotate_from_file(p.as_str()).map(|_| ())) {
                    None => -1,
                    Some(Err(_)) => 0,
                    Some(Ok(_)) => 1,
                };
                let _ = std::fs::remove_file(&path);
                let _ = std::fs::remove_dir(&dir);
                return r;
            }
        }
        let builders: Vec<AnnotationBuilder> = op.list()[1..].iter().map(builder).collect();
        return match guard(|| store.annotate_from_iter(builders)) {
            None => -1,
            Some(Err(_)) => 0,
            Some(Ok(_)) => 1,
        };
    }
    if op.nth(0).int() == 12 {
        let builders: Vec<AnnotationBuilder> = op.list()[1..].iter().map(builder).collect();
        match guard(|| store.annotate_from_iter(builders)) {
            None => -1,
            Some(Err(_)) => 0,
            Some(Ok(_)) => 1,
        }
    } else if op.nth(0).int() == 13 {
        let mut b = AnnotationDataSetBuilder::new().with_id(crate::storegen::sid(op.nth(1).int()));
        for d in op.nth(2).list() {
            b = b.with_data(dbuild(d));
        }
        match guard(|| store.add_dataset(b)) {
            None => -1,
            Some(Err(_)) => 0,
            Some(Ok(_)) => 1,
        }
    } else {
        apply(store, op).nth(0).int()
    }
}

impl Ctx {
    pub fn new() -> Self {
        crate::storegen::BARE_KEYS.store(true, std::sync::atomic::Ordering::Relaxed);
        Ctx {}
    }
    pub fn exec(&self, req: &Sx) -> (Sx, Vec<Sx>, bool) {
        let mut store = new_store();
        let mut outs = Vec::new();
        let mut nt = false;
        let mut model_ops = Vec::new();
        for op in req.list() {
            model_ops.push(if op.nth(0).int() == 16 { add_query_batch(&store, op) } else { op.clone() });
            let r = apply14(&mut store, op);
            outs.push(l(vec![a(r)]));
            if r != 1 {
                nt = true;
                outs.extend(observe(&store));
            }
        }
        (l(model_ops), outs, nt)
    }
}

pub fn generate(out: &mut Out, tier: &str, seed: u64) {
    let thorough = tier == "thorough";
    let ctx = Ctx::new();
    let mut rng = Rng::new(seed ^ 0xC14);
    let n = if thorough { 500000 } else { 3000 };
    for i in 0..n {
        let cfg = GenCfg { max_ops: if i % 4 == 0 { 30 } else { 12 }, removals: 2, invalid: 4, values: false };
        // generate against a scratch store so that the references are mostly valid
        let mut store = new_store();
        let mut shadow = Shadow::default();
        let mut ops = Vec::new();
        let len = 1 + rng.below(cfg.max_ops);
        for _ in 0..len {
            let op = if rng.chance(1, 6) {
                // a batch of 1..4 annotations
                let mut v = vec![a(if rng.chance(1, 5) { 17 } else if rng.chance(1, 2) { 12 } else { 15 })];
                for _ in 0..1 + rng.below(4) {
                    for _ in 0..30 {
                        let o = shadow.gen_op(&mut rng, &cfg);
                        if o.nth(0).int() == 3 {
                            v.push(l(o.list()[1..].to_vec()));
                            break;
                        }
                    }
                }
                l(v)
            } else if rng.chance(1, 10) || (rng.chance(1, 2) && ops.last().map(|o: &Sx| o.nth(0).int() == 16).unwrap_or(false)) {
                // an ADD query (often the one before once more: its first row then restates the
                // annotation that the failed attempt left, see Known_C14_batch_prefix)
                if rng.chance(1, 2) && ops.last().map(|o: &Sx| o.nth(0).int() == 16).unwrap_or(false) {
                    ops.last().unwrap().clone()
                } else {
                    l(vec![
                        a(16),
                        a(if rng.chance(2, 3) { rng.below(8) as i64 } else { -1 }),
                        a(rng.below(3) as i64),
                        a(rng.below(4) as i64),
                        a(rng.below(4) as i64),
                        a(rng.below(3) as i64),
                        a(rng.chance(1, 4) as i64),
                    ])
                }
            } else if rng.chance(1, 8) {
                // add_dataset with 1..3 data items, one reference in four invalid
                let items: Vec<Sx> = (0..1 + rng.below(3)).map(|_| shadow.gen_dbuild(&mut rng, &cfg)).collect();
                l(vec![a(13), a(rng.below(5) as i64), l(items)])
            } else {
                shadow.gen_op(&mut rng, &cfg)
            };
            let r = apply14(&mut store, &op);
            out.count(match (op.nth(0).int(), r) {
                (13, 1) => "add_dataset_with_data_ok",
                (13, _) => "add_dataset_with_data_failed",
                (12, 1) => "batch_ok",
                (12, _) => "batch_failed",
                (15, 1) => "batch_from_file_ok",
                (15, _) => "batch_from_file_failed",
                (17, _) => "batch_from_broken_file",
                (16, 1) => "add_query_ok",
                (16, _) => "add_query_failed",
                (3, 1) => "annotate_ok",
                (3, _) => "annotate_failed",
                (2, 1) => "insert_data_ok",
                (2, _) => "insert_data_failed",
                (0, 1) | (1, 1) => "add_ok",
                (0, _) | (1, _) => "add_failed",
                (_, 1) => "removal_ok",
                _ => "removal_failed",
            });
            ops.push(op);
            if guard(|| shadow.sync(&store)).is_none() {
                break;
            }
        }
        let req = l(ops);
        let (i2, o, nt) = ctx.exec(&req);
        out.case(&i2, &o, nt, &req);
    }
}

pub const RULE: &str = "seeded random histories of 1..12 (every 4th: 1..30) operations where one reference in four is invalid (unknown resource / annotation / dataset / key / data by id or handle, inverted and out-of-range offsets in both alignments, relative offsets beyond the parent, duplicate ids with different content, nested complex selectors, missing target, valid target with invalid data and vice versa) one operation in six is a batch (annotate_from_iter, or annotate_from_file on a STAM JSON document written for it, of 1..4 builders, the failing one at any position), one in ten an ADD query through query_mut over all annotations / resources / datasets (one new annotation per row, with one id for all rows the second row fails; often repeated so that its first row restates the annotation an earlier failed attempt left; a quarter of those over annotations with TARGET ?x OFFSET beyond any text, refused before any data is resolved), one batch in five read from a document whose last element is structurally wrong (refused as a whole) and one in eight an add_dataset with 1..3 data items; after EVERY operation that returns an error (or panics) the complete observation vector of C01 (all items, all reverse lookups, text selections, vocabulary, id resolution) is compared with the one before the call. One evaluation = one outcome or item record.";
pub const EXHAUSTIVE: bool = false;
