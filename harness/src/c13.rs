//! C13: relation tests on pairs and sets of text selections, through the public API.
use crate::out::{guard, Out};
use crate::rng::Rng;
use crate::sx::{a, b, l, onat, Sx};
use stam::*;

pub const RELS: usize = 12;

/// (rel, all, negate, limit, allow_whitespace) -> operator; rel index follows coq/Model/Rel.v
pub fn mkop(rel: usize, all: bool, negate: bool, limit: Option<usize>, ws: bool) -> TextSelectionOperator {
    use TextSelectionOperator::*;
    match rel {
        0 => Equals { all, negate },
        1 => Overlaps { all, negate },
        2 => Embeds { all, negate },
        3 => Embedded { all, negate, limit },
        4 => Before { all, negate, limit },
        5 => After { all, negate, limit },
        6 => Precedes { all, negate, allow_whitespace: ws },
        7 => Succeeds { all, negate, allow_whitespace: ws },
        8 => SameBegin { all, negate },
        9 => SameEnd { all, negate },
        10 => InSet { all, negate },
        11 => SameRange { all, negate },
        _ => unreachable!(),
    }
}

pub type OpCode = (usize, bool, bool, Option<usize>, bool);

pub fn all_ops(limits: &[Option<usize>]) -> Vec<OpCode> {
    let mut v = Vec::new();
    for rel in 0..RELS {
        for all in [false, true] {
            for neg in [false, true] {
                let lims: Vec<Option<usize>> = if (3..=5).contains(&rel) { limits.to_vec() } else { vec![None] };
                let wss: Vec<bool> = if rel == 6 || rel == 7 { vec![false, true] } else { vec![false] };
                for lim in &lims {
                    for ws in &wss {
                        v.push((rel, all, neg, *lim, *ws));
                    }
                }
            }
        }
    }
    v
}

/// operator packed into one integer: rel + 12*(all + 2*(neg + 2*(ws + 2*(limit+1)))), limit None = 0
pub fn op_sx(o: &OpCode) -> Sx {
    let lim = match o.3 {
        None => 0,
        Some(n) => n as i64 + 1,
    };
    a(o.0 as i64 + 12 * (o.1 as i64 + 2 * (o.2 as i64 + 2 * (o.4 as i64 + 2 * lim))))
}

fn ts_sx(t: &ResultTextSelection) -> Sx {
    l(vec![onat(t.handle().map(|h| h.as_usize())), a(t.begin() as i64), a(t.end() as i64)])
}

fn set_sx(s: &ResultTextSelectionSet, sorted: bool) -> Sx {
    let mut v = vec![b(sorted)];
    for t in s.iter() {
        v.push(ts_sx(&t));
    }
    l(v)
}

fn res(r: Option<bool>) -> Sx {
    match r {
        Some(false) => a(0),
        Some(true) => a(1),
        None => a(2),
    }
}

pub fn build_store(text: &str, bind: &dyn Fn(usize, usize) -> bool) -> AnnotationStore {
    let mut store = AnnotationStore::default()
        .with_id("c13")
        .with_resource(TextResourceBuilder::new().with_id("r").with_text(text))
        .unwrap();
    let n = text.chars().count();
    for bb in 0..=n {
        for ee in bb..=n {
            if bind(bb, ee) {
                store
                    .annotate(
                        AnnotationBuilder::new()
                            .with_target(SelectorBuilder::textselector("r", Offset::simple(bb, ee)))
                            .with_data("s", "k", "v"),
                    )
                    .unwrap();
            }
        }
    }
    store
}

fn mkset<'a>(
    store: &'a AnnotationStore,
    res: &ResultItem<'a, TextResource>,
    members: &[(usize, usize)],
    sorted: bool,
) -> ResultTextSelectionSet<'a> {
    let mut tset: TextSelectionSet = members
        .iter()
        .map(|(bb, ee)| res.textselection(&Offset::simple(*bb, *ee)).unwrap())
        .collect();
    if sorted {
        tset.sort();
    }
    tset.as_resultset(store)
}

fn wsflags(text: &str) -> Sx {
    l(text.chars().map(|c| b(c.is_whitespace())).collect())
}

fn ranges(n: usize) -> Vec<(usize, usize)> {
    let mut v = Vec::new();
    for bb in 0..=n {
        for ee in bb..=n {
            v.push((bb, ee));
        }
    }
    v
}

fn sets_upto2(r: &[(usize, usize)]) -> Vec<Vec<(usize, usize)>> {
    let mut v: Vec<Vec<(usize, usize)>> = Vec::new();
    for x in r {
        v.push(vec![*x]);
    }
    for x in r {
        for y in r {
            v.push(vec![*x, *y]);
        }
    }
    v
}

pub const TEXTS: [&str; 4] = ["ab \u{a0}c d", "abcdefg", "one  two\tthree \u{2003} four five", "ab  \u{a0}  \t \u{2003}     cd e"];

fn bind_rule(ti: usize, bb: usize, ee: usize) -> bool {
    match ti {
        0 | 1 => (bb + ee + ti) % 2 == 0,
        _ => ee - bb <= 3 && (bb * 7 + ee) % 3 == 0,
    }
}

pub struct Ctx {
    stores: Vec<AnnotationStore>,
}

fn op_of_code(z: i64) -> TextSelectionOperator {
    let rel = (z % 12) as usize;
    let z = z / 12;
    let all = z % 2 == 1;
    let z = z / 2;
    let neg = z % 2 == 1;
    let z = z / 2;
    let ws = z % 2 == 1;
    let z = z / 2;
    let lim = if z == 0 { None } else { Some((z - 1) as usize) };
    mkop(rel, all, neg, lim, ws)
}

fn members(x: &Sx) -> (bool, Vec<(usize, usize)>) {
    let l = x.list();
    let sorted = l.get(0).map(|v| v.int() != 0).unwrap_or(false);
    (sorted, l.iter().skip(1).map(|m| (m.nth(0).int() as usize, m.nth(1).int() as usize)).collect())
}

fn req_set(m: &[(usize, usize)], sorted: bool) -> Sx {
    let mut v = vec![b(sorted)];
    for (bb, ee) in m {
        v.push(l(vec![a(*bb as i64), a(*ee as i64)]));
    }
    l(v)
}

impl Ctx {
    pub fn new() -> Self {
        Ctx { stores: TEXTS.iter().enumerate().map(|(ti, t)| build_store(t, &|bb, ee| bind_rule(ti, bb, ee))).collect() }
    }

    /// request: (kind textid A B opcodes), A = (sorted (b e)...)
    /// returns the model input (kind wsflags A' B' opcodes) with A' = (sorted (hid b e)...) and one result per opcode
    pub fn exec(&self, req: &Sx) -> (Sx, Vec<Sx>, bool) {
        let kind = req.nth(0).int();
        let ti = (req.nth(1).int() as usize).min(TEXTS.len() - 1);
        let store = &self.stores[ti];
        let resitem = store.resource("r").unwrap();
        let (sa, am) = members(req.nth(2));
        let (sb, bm) = members(req.nth(3));
        let codes: Vec<i64> = req.nth(4).list().iter().map(|c| c.int()).collect();
        let ws = wsflags(TEXTS[ti]);
        let nontrivial;
        let (asx, bsx, results): (Sx, Sx, Vec<Sx>) = match kind {
            0 => {
                let ts = resitem.textselection(&Offset::simple(am[0].0, am[0].1)).unwrap();
                let tr = resitem.textselection(&Offset::simple(bm[0].0, bm[0].1)).unwrap();
                nontrivial = am[0].0 < am[0].1 || bm[0].0 < bm[0].1;
                (
                    l(vec![b(false), ts_sx(&ts)]),
                    l(vec![b(false), ts_sx(&tr)]),
                    codes.iter().map(|c| { let op = op_of_code(*c); res(guard(|| ts.test(&op, &tr))) }).collect(),
                )
            }
            1 => {
                let ts = resitem.textselection(&Offset::simple(am[0].0, am[0].1)).unwrap();
                let rs = mkset(store, &resitem, &bm, sb);
                nontrivial = bm.len() > 1;
                (
                    l(vec![b(false), ts_sx(&ts)]),
                    set_sx(&rs, sb),
                    codes.iter().map(|c| { let op = op_of_code(*c); res(guard(|| ts.test_set(&op, &rs))) }).collect(),
                )
            }
            2 => {
                let ss = mkset(store, &resitem, &am, sa);
                let tr = resitem.textselection(&Offset::simple(bm[0].0, bm[0].1)).unwrap();
                nontrivial = am.len() > 1;
                (
                    set_sx(&ss, sa),
                    l(vec![b(false), ts_sx(&tr)]),
                    codes.iter().map(|c| { let op = op_of_code(*c); res(guard(|| ss.test(&op, &tr))) }).collect(),
                )
            }
            4 | 5 | 6 => return self.exec_annotations(req),
            _ => {
                let ss = mkset(store, &resitem, &am, sa);
                let rs = mkset(store, &resitem, &bm, sb);
                nontrivial = am.len() > 1 || bm.len() > 1;
                (
                    set_sx(&ss, sa),
                    set_sx(&rs, sb),
                    codes.iter().map(|c| { let op = op_of_code(*c); res(guard(|| ss.test_set(&op, &rs))) }).collect(),
                )
            }
        };
        let input = l(vec![a(kind.min(3)), ws, asx, bsx, req.nth(4).clone()]);
        (input, results, nontrivial)
    }
}

fn target<'a>(members: &[(usize, usize)], resid: impl Fn(usize) -> &'static str) -> SelectorBuilder<'a> {
    let mut subs: Vec<SelectorBuilder> = members.iter().enumerate().map(|(i, (bb, ee))| SelectorBuilder::textselector(resid(i), Offset::simple(*bb, *ee))).collect();
    if subs.len() == 1 {
        subs.pop().unwrap()
    } else {
        match (members[0].0 + members.len()) % 3 {
            0 => SelectorBuilder::MultiSelector(subs),
            1 => SelectorBuilder::CompositeSelector(subs),
            _ => SelectorBuilder::DirectionalSelector(subs),
        }
    }
}

impl Ctx {
    /// kinds 4-6: the relation tests of ResultItem<Annotation> - test(other annotation),
    /// test_textselection, test_textselectionset - on a fresh store with annotation A over the members
    /// of the first operand and (kind 4) annotation B over those of the second.  With `two` (6th
    /// element 1) there is a second resource with the same text: A's members alternate between the
    /// two, the second operand lies in the second; only A's selections in that resource count.
    /// The model gets the sets as the annotations report them (kind 2 / 3), or kind 9 (false for
    /// every operator) when A has nothing in the resource of the second operand.
    fn exec_annotations(&self, req: &Sx) -> (Sx, Vec<Sx>, bool) {
        let kind = req.nth(0).int();
        let ti = (req.nth(1).int() as usize).min(TEXTS.len() - 1);
        let (_, am) = members(req.nth(2));
        let (sb, bm) = members(req.nth(3));
        let codes: Vec<i64> = req.nth(4).list().iter().map(|c| c.int()).collect();
        let two = req.list().len() > 5 && req.nth(5).int() == 1;
        let mut store = AnnotationStore::default()
            .with_id("c13a")
            .with_resource(TextResourceBuilder::new().with_id("r").with_text(TEXTS[ti]))
            .unwrap()
            .with_resource(TextResourceBuilder::new().with_id("r2").with_text(TEXTS[ti]))
            .unwrap();
        let bres: &'static str = if two { "r2" } else { "r" };
        store
            .annotate(AnnotationBuilder::new().with_id("A").with_target(target(&am, |i| if two && i % 2 == 1 { "r2" } else { "r" })).with_data("s", "k", "v"))
            .unwrap();
        if kind == 4 {
            store.annotate(AnnotationBuilder::new().with_id("B").with_target(target(&bm, |_| bres)).with_data("s", "k", "v")).unwrap();
        }
        let store = store;
        let ann_a = store.annotation("A").unwrap();
        let rb = store.resource(bres).unwrap();
        // A's selections in the resource of the second operand, in the order the annotation gives
        // them (taken one by one, not through textselectionsets(), which is under test)
        let aset: Vec<ResultTextSelection> = ann_a.textselections().filter(|t| t.resource().handle() == rb.handle()).collect();
        let ws = wsflags(TEXTS[ti]);
        let (bsx, mkind, results): (Sx, i64, Vec<Sx>) = match kind {
            4 => {
                let ann_b = store.annotation("B").unwrap();
                let mut bv = vec![b(false)];
                bv.extend(ann_b.textselections().map(|t| ts_sx(&t)));
                (l(bv), 3, codes.iter().map(|c| { let op = op_of_code(*c); res(guard(|| ann_a.test(&op, &ann_b))) }).collect())
            }
            5 => {
                let tr = rb.textselection(&Offset::simple(bm[0].0, bm[0].1)).unwrap();
                (l(vec![b(false), ts_sx(&tr)]), 2, codes.iter().map(|c| { let op = op_of_code(*c); res(guard(|| ann_a.test_textselection(&op, &tr))) }).collect())
            }
            _ => {
                let rs = mkset(&store, &rb, &bm, sb);
                (set_sx(&rs, sb), 3, codes.iter().map(|c| { let op = op_of_code(*c); res(guard(|| ann_a.test_textselectionset(&op, &rs))) }).collect())
            }
        };
        let (asx, mkind) = if aset.is_empty() {
            (l(vec![b(false)]), 9)
        } else {
            let mut v = vec![b(false)];
            v.extend(aset.iter().map(ts_sx));
            (l(v), mkind)
        };
        let input = l(vec![a(mkind), ws, asx, bsx, req.nth(4).clone()]);
        (input, results, true)
    }
}

fn emit_ann(ctx: &Ctx, out: &mut Out, kind: i64, ti: usize, am: &[(usize, usize)], bm: &[(usize, usize)], sb: bool, two: bool, opsx: &Sx) {
    let req = l(vec![a(kind), a(ti as i64), req_set(am, false), req_set(bm, sb), opsx.clone(), a(two as i64)]);
    // a panic outside the tests themselves (while the sets are taken from the annotation) shows as
    // a failing input: every operator answers "panic" where the model answers
    let (input, results, nt) = guard(|| ctx.exec(&req)).unwrap_or_else(|| {
        (l(vec![a(9), wsflags(TEXTS[ti.min(TEXTS.len() - 1)]), l(vec![b(false)]), l(vec![b(false)]), opsx.clone()]), opsx.list().iter().map(|_| a(2)).collect(), true)
    });
    out.case(&input, &results, nt, &req);
    out.count(["kind4_annotation_annotation", "kind5_annotation_ts", "kind6_annotation_set"][(kind - 4) as usize]);
}

fn emit(ctx: &Ctx, out: &mut Out, kind: i64, ti: usize, am: &[(usize, usize)], sa: bool, bm: &[(usize, usize)], sb: bool, opsx: &Sx) {
    let req = l(vec![a(kind), a(ti as i64), req_set(am, sa), req_set(bm, sb), opsx.clone()]);
    let (input, results, nt) = ctx.exec(&req);
    out.case(&input, &results, nt, &req);
    out.count(["kind0_ts_ts", "kind1_ts_set", "kind2_set_ts", "kind3_set_set"][kind as usize]);
}

pub fn generate(out: &mut Out, tier: &str, seed: u64) {
    let thorough = tier == "thorough";
    let ctx = Ctx::new();
    let limits: Vec<Option<usize>> = vec![None, Some(0), Some(1), Some(2), Some(5)];
    let opsx = l(all_ops(&limits).iter().map(op_sx).collect());
    let pn = 7;
    let sn = if thorough { 5 } else { 3 };
    for ti in 0..2 {
        let rp = ranges(pn);
        for s in &rp {
            for r in &rp {
                emit(&ctx, out, 0, ti, &[*s], false, &[*r], false, &opsx);
            }
        }
        if ti == 1 && !thorough {
            continue;
        }
        let rs = ranges(sn);
        let sets = sets_upto2(&rs);
        for s in &rs {
            for bs in &sets {
                for sorted in [false, true] {
                    emit(&ctx, out, 1, ti, &[*s], false, bs, sorted, &opsx);
                    emit(&ctx, out, 2, ti, bs, sorted, &[*s], false, &opsx);
                }
            }
        }
        for asx in &sets {
            for bs in &sets {
                for (sa, sb) in [(false, false), (true, true), (true, false), (false, true)] {
                    if !thorough && sa != sb {
                        continue;
                    }
                    emit(&ctx, out, 3, ti, asx, sa, bs, sb, &opsx);
                }
            }
        }
    }
    // the relation tests of annotations: every set of <= 2 members over positions 0..3 as annotation A
    // against an annotation, a selection and a set; with and without a second resource
    for ti in 0..2 {
        let rs = ranges(3);
        let sets = sets_upto2(&rs);
        for (i, asx) in sets.iter().enumerate() {
            for (j, bs) in sets.iter().enumerate() {
                if !thorough && (i + 2 * j + ti) % 3 != 0 {
                    continue;
                }
                let two = (i + j) % 2 == 1;
                emit_ann(&ctx, out, 4, ti, asx, bs, false, two, &opsx);
                emit_ann(&ctx, out, 6, ti, asx, bs, (i + j) % 4 < 2, two, &opsx);
                if bs.len() == 1 {
                    emit_ann(&ctx, out, 5, ti, asx, bs, false, two, &opsx);
                }
            }
        }
    }
    // random larger sets on two longer texts (the second has a whitespace run longer than the limit)
    let n = TEXTS[3].chars().count();
    let rlimits: Vec<Option<usize>> = vec![None, Some(0), Some(3), Some(9)];
    let ropsx = l(all_ops(&rlimits).iter().map(op_sx).collect());
    let mut rng = Rng::new(seed);
    let nrand = if thorough { 600000 } else { 4000 };
    let rset = |rng: &mut Rng| -> Vec<(usize, usize)> {
        let k = 1 + rng.below(4);
        (0..k)
            .map(|_| {
                let bb = rng.below(n + 1);
                let w = if rng.chance(1, 5) { 0 } else { rng.below(6) };
                (bb, (bb + w).min(n))
            })
            .collect()
    };
    for _ in 0..nrand {
        let asx = rset(&mut rng);
        let bs = rset(&mut rng);
        let sa = rng.chance(1, 2);
        let sb = rng.chance(1, 2);
        let ti = 2 + rng.below(2);
        if rng.chance(1, 6) {
            let two = rng.chance(1, 2);
            match rng.below(3) {
                0 => emit_ann(&ctx, out, 4, ti, &asx, &bs, false, two, &ropsx),
                1 => emit_ann(&ctx, out, 5, ti, &asx, &bs[..1], false, two, &ropsx),
                _ => emit_ann(&ctx, out, 6, ti, &asx, &bs, sb, two, &ropsx),
            }
            continue;
        }
        match rng.below(4) {
            0 => emit(&ctx, out, 0, ti, &asx[..1], false, &bs[..1], false, &ropsx),
            1 => emit(&ctx, out, 1, ti, &asx[..1], false, &bs, sb, &ropsx),
            2 => emit(&ctx, out, 2, ti, &asx, sa, &bs[..1], false, &ropsx),
            _ => emit(&ctx, out, 3, ti, &asx, sa, &bs, sb, &ropsx),
        }
    }
}

pub const RULE: &str = "exhaustive: all pairs of well-formed ranges over positions 0..7 on two 7-codepoint texts (with / without whitespace, about half of the ranges bound to handles), all sets of size <=2 over positions 0..3 (quick) / 0..5 (thorough) sorted and unsorted, each against every operator x all x negate x limit in {None,0,1,2,5} x allow_whitespace; plus seeded random sets of size 1..4 on a 29-codepoint text. The relation tests of annotations (ResultItem<Annotation>::test / test_textselection / test_textselectionset): annotation A over every set of <=2 members over positions 0..3 (Multi/Composite/Directional or a plain text selector) against a second annotation, a selection and a set, half of them with a second resource of the same text (A's members alternating between the two, only those in the resource of the second operand count), plus a sixth of the random cases. One evaluation = one (operands, operator) test through ResultTextSelection::test/test_set, ResultTextSelectionSet::test/test_set or the annotation-level tests. A case line is non-trivial when an operand is non-empty (pairs) or a set has more than one member; distinct = distinct input lines.";

pub const EXHAUSTIVE: bool = true;
