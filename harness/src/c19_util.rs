//! Helpers of the C19 harness: an order-preserving JSON tree (duplicate keys allowed) with a
//! parser for the well-formed JSON the library writes, CSV field quoting, CBOR unsigned
//! integers, process measurements read from /proc.

#[derive(Clone, Debug, PartialEq)]
pub enum J {
    Null,
    Bool(bool),
    Num(String),
    Str(String),
    Arr(Vec<J>),
    Obj(Vec<(String, J)>),
}

pub fn jstr(s: &str) -> String {
    serde_json::to_string(s).unwrap()
}

impl J {
    pub fn write(&self, out: &mut String) {
        match self {
            J::Null => out.push_str("null"),
            J::Bool(b) => out.push_str(if *b { "true" } else { "false" }),
            J::Num(n) => out.push_str(n),
            J::Str(s) => out.push_str(&jstr(s)),
            J::Arr(v) => {
                out.push('[');
                for (i, x) in v.iter().enumerate() {
                    if i > 0 {
                        out.push(',');
                    }
                    x.write(out);
                }
                out.push(']');
            }
            J::Obj(v) => {
                out.push('{');
                for (i, (k, x)) in v.iter().enumerate() {
                    if i > 0 {
                        out.push(',');
                    }
                    out.push_str(&jstr(k));
                    out.push(':');
                    x.write(out);
                }
                out.push('}');
            }
        }
    }
    pub fn to_text(&self) -> String {
        let mut s = String::new();
        self.write(&mut s);
        s
    }
    /// number of nodes (pre-order numbering starts at 0 = the root)
    pub fn count(&self) -> usize {
        match self {
            J::Arr(v) => 1 + v.iter().map(|x| x.count()).sum::<usize>(),
            J::Obj(v) => 1 + v.iter().map(|(_, x)| x.count()).sum::<usize>(),
            _ => 1,
        }
    }
}

struct P<'a> {
    b: &'a [u8],
    i: usize,
}

impl<'a> P<'a> {
    fn ws(&mut self) {
        while self.i < self.b.len() && (self.b[self.i] as char).is_ascii_whitespace() {
            self.i += 1;
        }
    }
    fn string(&mut self) -> Option<String> {
        // self.b[self.i] == '"'
        let start = self.i;
        self.i += 1;
        while self.i < self.b.len() {
            match self.b[self.i] {
                b'\\' => self.i += 2,
                b'"' => {
                    self.i += 1;
                    let raw = std::str::from_utf8(&self.b[start..self.i]).ok()?;
                    return serde_json::from_str::<String>(raw).ok();
                }
                _ => self.i += 1,
            }
        }
        None
    }
    fn value(&mut self) -> Option<J> {
        self.ws();
        if self.i >= self.b.len() {
            return None;
        }
        match self.b[self.i] {
            b'{' => {
                self.i += 1;
                let mut v = Vec::new();
                loop {
                    self.ws();
                    if self.i >= self.b.len() {
                        return None;
                    }
                    if self.b[self.i] == b'}' {
                        self.i += 1;
                        return Some(J::Obj(v));
                    }
                    if self.b[self.i] == b',' {
                        self.i += 1;
                        continue;
                    }
                    if self.b[self.i] != b'"' {
                        return None;
                    }
                    let k = self.string()?;
                    self.ws();
                    if self.i >= self.b.len() || self.b[self.i] != b':' {
                        return None;
                    }
                    self.i += 1;
                    let x = self.value()?;
                    v.push((k, x));
                }
            }
            b'[' => {
                self.i += 1;
                let mut v = Vec::new();
                loop {
                    self.ws();
                    if self.i >= self.b.len() {
                        return None;
                    }
                    if self.b[self.i] == b']' {
                        self.i += 1;
                        return Some(J::Arr(v));
                    }
                    if self.b[self.i] == b',' {
                        self.i += 1;
                        continue;
                    }
                    v.push(self.value()?);
                }
            }
            b'"' => self.string().map(J::Str),
            b't' => {
                self.i += 4;
                Some(J::Bool(true))
            }
            b'f' => {
                self.i += 5;
                Some(J::Bool(false))
            }
            b'n' => {
                self.i += 4;
                Some(J::Null)
            }
            _ => {
                let start = self.i;
                while self.i < self.b.len() && (b"+-0123456789.eE".contains(&self.b[self.i])) {
                    self.i += 1;
                }
                if self.i == start {
                    return None;
                }
                Some(J::Num(std::str::from_utf8(&self.b[start..self.i]).ok()?.to_string()))
            }
        }
    }
}

pub fn jparse(s: &str) -> Option<J> {
    let mut p = P { b: s.as_bytes(), i: 0 };
    p.value()
}

/// what to do with the node whose pre-order number is `target`
pub enum Edit {
    Delete,
    Duplicate,
    SwapNext,
    Replace(J),
    /// replace the node if `f` returns Some for it
    Map(fn(&J, usize) -> Option<J>, usize),
}

/// apply `edit` to node number `target`; returns the kind of node hit ("" if none was changed)
pub fn jedit(root: &J, target: usize, edit: &Edit) -> (J, &'static str) {
    let mut counter = 0usize;
    let mut hit = "";
    let r = edit_rec(root, target, edit, &mut counter, &mut hit, true);
    (r.unwrap_or(J::Null), hit)
}

fn kind_name(j: &J) -> &'static str {
    match j {
        J::Null => "null",
        J::Bool(_) => "bool",
        J::Num(_) => "num",
        J::Str(_) => "str",
        J::Arr(_) => "arr",
        J::Obj(_) => "obj",
    }
}

/// returns None when the node itself is to be deleted (handled by the parent)
fn edit_rec(j: &J, target: usize, edit: &Edit, counter: &mut usize, hit: &mut &'static str, is_root: bool) -> Option<J> {
    let me = *counter;
    *counter += 1;
    if me == target {
        match edit {
            Edit::Replace(x) => {
                *hit = kind_name(j);
                // still count the subtree so numbering stays consistent (not needed afterwards)
                return Some(x.clone());
            }
            Edit::Map(f, v) => {
                if let Some(x) = f(j, *v) {
                    *hit = kind_name(j);
                    return Some(x);
                }
            }
            Edit::Delete if !is_root => {
                *hit = kind_name(j);
                return None;
            }
            _ => {}
        }
    }
    match j {
        J::Arr(v) => {
            let mut out = Vec::new();
            let mut swap_pending: Option<J> = None;
            for x in v {
                let child_no = *counter;
                let r = edit_rec(x, target, edit, counter, hit, false);
                if let Some(r) = r {
                    if child_no == target {
                        match edit {
                            Edit::Duplicate => {
                                *hit = kind_name(x);
                                out.push(r.clone());
                                out.push(r);
                                continue;
                            }
                            Edit::SwapNext => {
                                swap_pending = Some(r);
                                continue;
                            }
                            _ => {}
                        }
                    }
                    out.push(r);
                    if let Some(p) = swap_pending.take() {
                        *hit = "swap";
                        out.push(p);
                    }
                }
            }
            if let Some(p) = swap_pending.take() {
                out.push(p);
            }
            Some(J::Arr(out))
        }
        J::Obj(v) => {
            let mut out = Vec::new();
            let mut swap_pending: Option<(String, J)> = None;
            for (k, x) in v {
                let child_no = *counter;
                let r = edit_rec(x, target, edit, counter, hit, false);
                if let Some(r) = r {
                    if child_no == target {
                        match edit {
                            Edit::Duplicate => {
                                *hit = kind_name(x);
                                out.push((k.clone(), r.clone()));
                                out.push((k.clone(), r));
                                continue;
                            }
                            Edit::SwapNext => {
                                swap_pending = Some((k.clone(), r));
                                continue;
                            }
                            _ => {}
                        }
                    }
                    out.push((k.clone(), r));
                    if let Some(p) = swap_pending.take() {
                        *hit = "swap";
                        out.push(p);
                    }
                }
            }
            if let Some(p) = swap_pending.take() {
                out.push(p);
            }
            Some(J::Obj(out))
        }
        other => Some(other.clone()),
    }
}

pub fn csv_field(s: &str) -> String {
    if s.contains(',') || s.contains('"') || s.contains('\n') || s.contains('\r') {
        format!("\"{}\"", s.replace('"', "\"\""))
    } else {
        s.to_string()
    }
}

/// CBOR encoding of an unsigned integer
pub fn cbor_uint(v: u64) -> Vec<u8> {
    if v < 24 {
        vec![v as u8]
    } else if v <= 0xff {
        vec![0x18, v as u8]
    } else if v <= 0xffff {
        vec![0x19, (v >> 8) as u8, v as u8]
    } else if v <= 0xffff_ffff {
        let mut o = vec![0x1a];
        o.extend_from_slice(&(v as u32).to_be_bytes());
        o
    } else {
        let mut o = vec![0x1b];
        o.extend_from_slice(&v.to_be_bytes());
        o
    }
}

pub fn find_all(hay: &[u8], needle: &[u8]) -> Vec<usize> {
    let mut v = Vec::new();
    if needle.is_empty() || hay.len() < needle.len() {
        return v;
    }
    for i in 0..=(hay.len() - needle.len()) {
        if &hay[i..i + needle.len()] == needle {
            v.push(i);
        }
    }
    v
}

fn status_kb(field: &str) -> u64 {
    if let Ok(s) = std::fs::read_to_string("/proc/self/status") {
        for line in s.lines() {
            if line.starts_with(field) {
                return line.split_whitespace().nth(1).and_then(|x| x.parse().ok()).unwrap_or(0);
            }
        }
    }
    0
}

/// resident set size now (KiB)
pub fn rss_kb() -> u64 {
    status_kb("VmRSS:")
}
/// peak resident set size (KiB); reset_peak() makes it restart from the current size
pub fn peak_kb() -> u64 {
    status_kb("VmHWM:")
}
pub fn reset_peak() {
    let _ = std::fs::write("/proc/self/clear_refs", "5");
}
/// cpu time of this process so far in milliseconds
pub fn cpu_ms() -> u64 {
    if let Ok(s) = std::fs::read_to_string("/proc/self/schedstat") {
        if let Some(ns) = s.split_whitespace().next().and_then(|x| x.parse::<u64>().ok()) {
            if ns > 0 {
                return ns / 1_000_000;
            }
        }
    }
    if let Ok(s) = std::fs::read_to_string("/proc/self/stat") {
        if let Some(pos) = s.rfind(')') {
            let f: Vec<&str> = s[pos + 1..].split_whitespace().collect();
            // after the command: state is f[0]; utime = field 14, stime = field 15 of the whole line
            if f.len() > 13 {
                let ut: u64 = f[11].parse().unwrap_or(0);
                let st: u64 = f[12].parse().unwrap_or(0);
                return (ut + st) * 10;
            }
        }
    }
    0
}

/// positions of the length headers (byte/text strings, arrays, maps) of a well-formed CBOR item
/// sequence: (offset, major type, header size in bytes, length)
pub fn cbor_headers(b: &[u8]) -> Vec<(usize, u8, usize, u64)> {
    let mut out = Vec::new();
    let mut pos = 0usize;
    // explicit stack of "items still to read" so that deep nesting cannot overflow our own stack
    let mut todo: Vec<u64> = vec![1];
    while let Some(n) = todo.pop() {
        if n == 0 {
            continue;
        }
        todo.push(n - 1);
        if pos >= b.len() {
            break;
        }
        let ib = b[pos];
        let major = ib >> 5;
        let ai = ib & 31;
        let (arg, hdr) = match ai {
            0..=23 => (ai as u64, 1usize),
            24 if pos + 1 < b.len() => (b[pos + 1] as u64, 2),
            25 if pos + 2 < b.len() => (u16::from_be_bytes([b[pos + 1], b[pos + 2]]) as u64, 3),
            26 if pos + 4 < b.len() => (u32::from_be_bytes([b[pos + 1], b[pos + 2], b[pos + 3], b[pos + 4]]) as u64, 5),
            27 if pos + 8 < b.len() => {
                let mut x = [0u8; 8];
                x.copy_from_slice(&b[pos + 1..pos + 9]);
                (u64::from_be_bytes(x), 9)
            }
            _ => break, // indefinite or truncated: the library does not write these
        };
        match major {
            0 | 1 | 7 => pos += hdr,
            2 | 3 => {
                out.push((pos, major, hdr, arg));
                pos += hdr + arg as usize;
            }
            4 => {
                out.push((pos, major, hdr, arg));
                pos += hdr;
                todo.push(arg);
            }
            5 => {
                out.push((pos, major, hdr, arg));
                pos += hdr;
                todo.push(arg.saturating_mul(2));
            }
            _ => {
                // tag: one item follows
                pos += hdr;
                todo.push(1);
            }
        }
    }
    out
}

/// a CBOR header of the given major type whose argument is `v`, in the form that takes `size`
/// additional bytes (0 = inside the initial byte, 1, 2, 4, 8) or of indefinite length (size 99)
pub fn cbor_header(major: u8, v: u64, size: usize) -> Vec<u8> {
    let m = major << 5;
    match size {
        0 => vec![m | (v.min(23) as u8)],
        1 => vec![m | 24, v as u8],
        2 => {
            let mut o = vec![m | 25];
            o.extend_from_slice(&(v as u16).to_be_bytes());
            o
        }
        4 => {
            let mut o = vec![m | 26];
            o.extend_from_slice(&(v as u32).to_be_bytes());
            o
        }
        8 => {
            let mut o = vec![m | 27];
            o.extend_from_slice(&v.to_be_bytes());
            o
        }
        _ => vec![m | 31],
    }
}
