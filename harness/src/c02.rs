//! C02: after every operation, which items are alive and whether every surviving
//! annotation still resolves (iterating, serialising cannot fail or panic).
use crate::out::{guard, Out};
use crate::rng::Rng;
use crate::storegen::{apply, gen_history, new_store, GenCfg};
use crate::sx::{a, b, l, Sx};
use stam::*;

pub struct Ctx {}

const DEAD: Sx = Sx::A(-2);

pub fn live_view(store: &AnnotationStore) -> Sx {
    let anns = (0..store.annotations_len())
        .map(|h| match store.annotation(AnnotationHandle::new(h)) {
            Some(x) => l(x.as_ref().raw_data().iter().map(|(s, d)| l(vec![a(s.as_usize() as i64), a(d.as_usize() as i64)])).collect()),
            None => DEAD,
        })
        .collect();
    let ress = (0..store.resources_len()).map(|h| b(store.resource(TextResourceHandle::new(h)).is_some())).collect();
    let sets = (0..store.datasets_len())
        .map(|h| match store.dataset(AnnotationDataSetHandle::new(h)) {
            None => DEAD,
            Some(set) => l(vec![
                l((0..set.as_ref().keys_len()).map(|k| b(set.key(DataKeyHandle::new(k)).is_some())).collect()),
                l((0..set.as_ref().data_len()).map(|x| b(set.annotationdata(AnnotationDataHandle::new(x)).is_some())).collect()),
            ]),
        })
        .collect();
    l(vec![l(anns), l(ress), l(sets)])
}

/// every surviving annotation's target and data resolve; iterating and serialising work
pub fn sound(store: &AnnotationStore) -> bool {
    guard(|| {
        for ann in store.annotations() {
            for ts in ann.textselections() {
                let _ = ts.text();
            }
            let _ = ann.annotations_in_targets(AnnotationDepth::Max).count();
            let _ = ann.resources().count() + ann.resources_as_metadata().count() + ann.datasets().count();
            let _ = ann.keys_as_metadata().count() + ann.data_as_metadata().count();
            for d in ann.data() {
                let _ = d.key().id();
                let _ = d.value();
            }
            if ann.as_ref().to_json_string(store).is_err() {
                return false;
            }
        }
        store.to_json_string(&Config::default()).is_ok()
    })
    .unwrap_or(false)
}

impl Ctx {
    pub fn new() -> Self {
        crate::storegen::BARE_KEYS.store(true, std::sync::atomic::Ordering::Relaxed);
        Ctx {}
    }
    pub fn exec(&self, req: &Sx) -> (Sx, Vec<Sx>, bool) {
        let mut store = new_store();
        let mut outs = Vec::new();
        let mut nontrivial = false;
        for op in req.list() {
            let r = apply(&mut store, op);
            if op.nth(0).int() >= 4 && r.nth(0).int() == 1 {
                nontrivial = true;
            }
            outs.push(l(vec![r, live_view(&store), b(sound(&store))]));
        }
        (req.clone(), outs, nontrivial)
    }
}

pub fn generate(out: &mut Out, tier: &str, seed: u64) {
    let thorough = tier == "thorough";
    let ctx = Ctx::new();
    let mut rng = Rng::new(seed ^ 0xC02);
    let n = if thorough { 500000 } else { 4000 };
    for i in 0..n {
        let cfg = GenCfg { max_ops: if i % 4 == 0 { 40 } else { 16 }, removals: 6, invalid: 20, values: false };
        let ops = gen_history(&mut rng, &cfg);
        for op in &ops {
            out.count(match op.nth(0).int() {
                0 => "op_add_resource",
                1 => "op_add_dataset",
                2 => "op_insert_data",
                3 => "op_annotate",
                4 => "op_remove_annotation",
                5 => "op_remove_data",
                6 => "op_remove_key",
                7 => "op_remove_resource",
                _ => "op_remove_dataset",
            });
        }
        let req = l(ops);
        let (i2, o, nt) = ctx.exec(&req);
        out.case(&i2, &o, nt, &req);
    }
}

pub const RULE: &str = "seeded random histories of 1..16 (every 4th: 1..40) operations as in C01 with a higher share of removals (annotations, data strict/non-strict, keys, resources, datasets; by id and by handle; of live and of dead items; shared data, annotations on annotations, diamonds, metadata annotations on keys/data of removed sets arise from the generator's reference pool); after EVERY operation: its outcome, the liveness of every annotation (with its remaining data), resource, dataset, key and data slot, and whether every surviving annotation still resolves (targets, text, data, to_json of every annotation and of the store, under catch_unwind). One evaluation = one operation; non-trivial = history with a successful removal.";
pub const EXHAUSTIVE: bool = false;
