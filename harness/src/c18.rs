//! C18: text validation. Stores with arbitrary texts built through the public API, protect_text in
//! the four modes, validate_text per annotation; JSON and CBOR round trips; every single edit of
//! every resource text realised by loading the store's own JSON against the edited text.
//! Encoding of requests and of the model input: coq/Run/C18.v.
use crate::out::{guard, Out};
use crate::rng::Rng;
use crate::storegen::{self, cursor, new_store, value, value_sx, GenCfg, Shadow};
use crate::sx::{a, l, nats, Sx};
use stam::*;
use std::collections::BTreeMap;
use std::sync::atomic::{AtomicUsize, Ordering};

pub const VSET: &str = "https://w3id.org/stam/extensions/stam-textvalidation/";
const VSET_TOK: i64 = 78;
const KCHK: i64 = 90;
const KTXT: i64 = 91;
const KDEL: i64 = 92;

const DEAD: Sx = Sx::A(-2);
fn panic_sx() -> Sx {
    l(vec![a(-1)])
}

// ---------------------------------------------------------------------------------------------
// identifiers: as in storegen, plus the vocabulary of the text validation extension

fn rid(t: i64) -> String {
    storegen::rid(t)
}
fn aid(t: i64) -> String {
    storegen::aid(t)
}
fn did(t: i64) -> String {
    storegen::did(t)
}
fn sid(t: i64) -> String {
    if t == VSET_TOK {
        VSET.to_string()
    } else {
        storegen::sid(t)
    }
}
fn kid(t: i64) -> String {
    match t {
        KCHK => "checksum".to_string(),
        KTXT => "text".to_string(),
        KDEL => "delimiter".to_string(),
        _ => storegen::kid(t),
    }
}
fn tok_of(id: Option<&str>, prefix: char) -> Sx {
    match id {
        Some("default-annotationset") => Sx::A(storegen::DEFAULT_SET_TOKEN),
        Some(VSET) => Sx::A(VSET_TOK),
        Some("checksum") => Sx::A(KCHK),
        Some("text") => Sx::A(KTXT),
        Some("delimiter") => Sx::A(KDEL),
        Some(s) if s.starts_with(prefix) => s[1..].parse::<i64>().map(Sx::A).unwrap_or(Sx::A(-3)),
        Some(_) => Sx::A(-3),
        None => Sx::A(-1),
    }
}

fn res_item<'a>(x: &Sx) -> BuildItem<'a, TextResource> {
    if x.nth(0).int() == 0 {
        BuildItem::Id(rid(x.nth(1).int()))
    } else {
        BuildItem::Handle(TextResourceHandle::new(x.nth(1).int() as usize))
    }
}
fn ann_item<'a>(x: &Sx) -> BuildItem<'a, Annotation> {
    if x.nth(0).int() == 0 {
        BuildItem::Id(aid(x.nth(1).int()))
    } else {
        BuildItem::Handle(AnnotationHandle::new(x.nth(1).int() as usize))
    }
}
fn set_item<'a>(x: &Sx) -> BuildItem<'a, AnnotationDataSet> {
    if x.nth(0).int() == 0 {
        BuildItem::Id(sid(x.nth(1).int()))
    } else {
        BuildItem::Handle(AnnotationDataSetHandle::new(x.nth(1).int() as usize))
    }
}
fn key_item<'a>(x: &Sx) -> BuildItem<'a, DataKey> {
    match x {
        Sx::A(_) => BuildItem::None,
        _ => {
            if x.nth(0).int() == 0 {
                BuildItem::Id(kid(x.nth(1).int()))
            } else {
                BuildItem::Handle(DataKeyHandle::new(x.nth(1).int() as usize))
            }
        }
    }
}
fn data_item<'a>(x: &Sx) -> BuildItem<'a, AnnotationData> {
    match x {
        Sx::A(_) => BuildItem::None,
        _ => {
            if x.nth(0).int() == 0 {
                BuildItem::Id(did(x.nth(1).int()))
            } else {
                BuildItem::Handle(AnnotationDataHandle::new(x.nth(1).int() as usize))
            }
        }
    }
}
fn dbuild<'a>(x: &Sx) -> AnnotationDataBuilder<'a> {
    AnnotationDataBuilder::new()
        .with_dataset(set_item(x.nth(0)))
        .with_id(data_item(x.nth(1)))
        .with_key(key_item(x.nth(2)))
        .with_value(value(x.nth(3)))
}
fn sbuild<'a>(x: &Sx) -> SelectorBuilder<'a> {
    match x.nth(0).int() {
        0 => SelectorBuilder::TextSelector(res_item(x.nth(1)), Offset::new(cursor(x.nth(2)), cursor(x.nth(3)))),
        1 => SelectorBuilder::AnnotationSelector(ann_item(x.nth(1)), None),
        2 => SelectorBuilder::AnnotationSelector(ann_item(x.nth(1)), Some(Offset::new(cursor(x.nth(2)), cursor(x.nth(3))))),
        3 => SelectorBuilder::ResourceSelector(res_item(x.nth(1))),
        4 => SelectorBuilder::DataSetSelector(set_item(x.nth(1))),
        5 => SelectorBuilder::DataKeySelector(set_item(x.nth(1)), key_item(x.nth(2))),
        6 => SelectorBuilder::AnnotationDataSelector(set_item(x.nth(1)), data_item(x.nth(2))),
        _ => {
            let subs: Vec<SelectorBuilder> = x.list()[2..].iter().map(sbuild).collect();
            match x.nth(1).int() {
                1 => SelectorBuilder::MultiSelector(subs),
                2 => SelectorBuilder::CompositeSelector(subs),
                _ => SelectorBuilder::DirectionalSelector(subs),
            }
        }
    }
}

fn mode_of(m: i64) -> TextValidationMode {
    match m {
        0 => TextValidationMode::Checksum,
        1 => TextValidationMode::Text,
        2 => TextValidationMode::Both,
        _ => TextValidationMode::Auto,
    }
}

fn string_of(cps: &[Sx]) -> String {
    cps.iter().filter_map(|c| char::from_u32(c.int() as u32)).collect()
}
fn text_sx(s: &str) -> Sx {
    crate::sx::text(s)
}

fn status<T>(r: Option<Result<T, StamError>>) -> i64 {
    match r {
        None => -1,
        Some(Err(_)) => 0,
        Some(Ok(_)) => 1,
    }
}

/// apply one operation of a history (the outcome is not observed here: C01/C14 do that)
pub fn apply(store: &mut AnnotationStore, op: &Sx) -> i64 {
    match op.nth(0).int() {
        0 => {
            let b = TextResourceBuilder::new().with_id(rid(op.nth(1).int())).with_text(string_of(&op.list()[3.min(op.list().len())..]));
            status(guard(|| store.add_resource(b)))
        }
        1 => {
            let b = AnnotationDataSetBuilder::new().with_id(sid(op.nth(1).int()));
            status(guard(|| store.add_dataset(b)))
        }
        2 => {
            let b = dbuild(op.nth(1));
            status(guard(|| store.insert_data(b)))
        }
        3 => {
            let mut b = AnnotationBuilder::new();
            if op.nth(1).int() >= 0 {
                b = b.with_id(aid(op.nth(1).int()));
            }
            if let Sx::L(_) = op.nth(2) {
                b = b.with_target(sbuild(op.nth(2)));
            }
            for d in op.nth(3).list() {
                b = b.with_data_builder(dbuild(d));
            }
            status(guard(|| store.annotate(b)))
        }
        4 => {
            if op.nth(1).nth(0).int() == 0 {
                let id = aid(op.nth(1).nth(1).int());
                status(guard(|| store.remove_annotation(id.as_str())))
            } else {
                let h = AnnotationHandle::new(op.nth(1).nth(1).int() as usize);
                status(guard(|| store.remove_annotation(h)))
            }
        }
        5 | 6 => {
            let strict = op.nth(3).int() != 0;
            let set = set_item(op.nth(1));
            if op.nth(0).int() == 5 {
                let d = data_item(op.nth(2));
                status(guard(|| store.remove_data(set, d, strict)))
            } else {
                let k = key_item(op.nth(2));
                status(guard(|| store.remove_key(set, k, strict)))
            }
        }
        7 => {
            let it = res_item(op.nth(1));
            status(guard(|| store.remove_resource(it)))
        }
        8 => {
            let it = set_item(op.nth(1));
            status(guard(|| store.remove_dataset(it)))
        }
        _ => status(guard(|| store.protect_text(mode_of(op.nth(1).int())))),
    }
}

// ---------------------------------------------------------------------------------------------
// observations

fn handles<'a, I: Iterator<Item = ResultItem<'a, Annotation>>>(it: I) -> Sx {
    nats(it.map(|x| x.handle().as_usize()))
}

/// as storegen::obs_dataset, with the tokens of the validation vocabulary
fn obs_dataset(store: &AnnotationStore, h: usize) -> Sx {
    guard(|| {
        let set = match store.dataset(AnnotationDataSetHandle::new(h)) {
            Some(x) => x,
            None => return DEAD,
        };
        let mut keys = Vec::new();
        for k in 0..set.as_ref().keys_len() {
            match set.key(DataKeyHandle::new(k)) {
                None => keys.push(DEAD),
                Some(key) => keys.push(l(vec![
                    tok_of(key.id(), 'k'),
                    nats(key.data().map(|d| d.handle().as_usize())),
                    handles(key.annotations()),
                    handles(key.annotations_as_metadata()),
                ])),
            }
        }
        let mut data = Vec::new();
        for x in 0..set.as_ref().data_len() {
            match set.annotationdata(AnnotationDataHandle::new(x)) {
                None => data.push(DEAD),
                Some(d) => data.push(l(vec![
                    tok_of(d.id(), 'd'),
                    a(d.key().handle().as_usize() as i64),
                    value_sx(d.value()),
                    handles(d.annotations()),
                    handles(d.annotations_as_metadata()),
                ])),
            }
        }
        l(vec![tok_of(set.id(), 's'), handles(set.annotations()), l(keys), l(data)])
    })
    .unwrap_or_else(panic_sx)
}

fn verdict(v: Option<bool>) -> Sx {
    match v {
        None => a(2),
        Some(true) => a(1),
        Some(false) => a(0),
    }
}

/// ((verdict per slot) (valid invalid missing)); `live_only` drops the empty slots
fn verdicts(store: &AnnotationStore, live_only: bool) -> Sx {
    guard(|| {
        let mut v = Vec::new();
        for h in 0..store.annotations_len() {
            match store.annotation(AnnotationHandle::new(h)) {
                Some(x) => v.push(verdict(x.validate_text())),
                None => {
                    if !live_only {
                        v.push(DEAD)
                    }
                }
            }
        }
        let r = store.validate_text(true);
        l(vec![l(v), l(vec![a(r.valid() as i64), a(r.invalid() as i64), a(r.missing() as i64)])])
    })
    .unwrap_or_else(panic_sx)
}

/// the digests the library reports for the joined strings of the live annotations
fn collect_digests(store: &AnnotationStore, table: &mut BTreeMap<String, String>) {
    let _ = guard(|| {
        for x in store.annotations() {
            let d = x.text_validation_delimiter().unwrap_or("");
            let j = x.text_join(d);
            if let Some(c) = x.text_checksum(d) {
                table.entry(j).or_insert(c);
            }
        }
    });
}

/// per live annotation the text selections it has: ((restok b e)...)
fn obs_ranges(store: &AnnotationStore) -> Sx {
    guard(|| {
        l(store
            .annotations()
            .map(|x| {
                l(x.textselections()
                    .map(|ts| l(vec![tok_of(ts.resource().id(), 'r'), a(ts.begin() as i64), a(ts.end() as i64)]))
                    .collect())
            })
            .collect())
    })
    .unwrap_or_else(panic_sx)
}

fn cfg() -> Config {
    Config::default().with_generate_ids(false).with_debug(false)
}

/// the configuration with reverse indices switched off: bit 0 textrelationmap, 1 resource_annotation_map,
/// 2 dataset_annotation_map, 3 annotation_annotation_map, 4 key_annotation_metamap, 5 data_annotation_metamap.
/// The switches only disable reverse lookups: what an annotation selects, what protect_text
/// records and what validate_text answers do not depend on them.
fn cfg_with(flags: i64) -> Config {
    cfg()
        .with_textrelationmap(flags & 1 == 0)
        .with_resource_annotation_map(flags & 2 == 0)
        .with_dataset_annotation_map(flags & 4 == 0)
        .with_annotation_annotation_map(flags & 8 == 0)
        .with_key_annotation_metamap(flags & 16 == 0)
        .with_data_annotation_metamap(flags & 32 == 0)
}

/// the STAM JSON of the store with the text of the n-th serialised resource replaced
fn replace_text(json: &str, nth: usize, newtext: &str) -> Option<String> {
    let marker = "\"@type\": \"TextResource\"";
    let mut from = 0usize;
    let mut at = None;
    for _ in 0..=nth {
        let p = json[from..].find(marker)? + from;
        at = Some(p);
        from = p + marker.len();
    }
    let at = at?;
    let key = "\"text\": ";
    let k = json[at..].find(key)? + at + key.len();
    // parse the string literal that starts at k
    let bytes = json.as_bytes();
    if bytes.get(k) != Some(&b'"') {
        return None;
    }
    let mut i = k + 1;
    while i < bytes.len() {
        match bytes[i] {
            b'\\' => i += 2,
            b'"' => break,
            _ => i += 1,
        }
    }
    if i >= bytes.len() {
        return None;
    }
    let lit = serde_json::to_string(newtext).ok()?;
    Some(format!("{}{}{}", &json[..k], lit, &json[i + 1..]))
}

const ALPHA: [char; 14] = ['a', 'b', 'é', ' ', '漢', 'c', '😀', 'ß', '字', '|', '𝄞', '"', '\\', '\n'];

pub struct Ctx {
    dir: String,
    counter: AtomicUsize,
}

impl Drop for Ctx {
    fn drop(&mut self) {
        let _ = std::fs::remove_dir_all(&self.dir);
    }
}

fn workdir() -> String {
    let base = std::env::var("VERIF_WORK").unwrap_or_else(|_| "/verif/.cache/work".to_string());
    format!("{}/c18/{}", base, std::process::id())
}

struct Edit {
    res: usize,       // resource handle
    nth: usize,       // its index among the serialised (live) resources
    text: String,     // the new text
    same_len: bool,
}

/// the edits a request asks for: (-1 cap) = every single edit of every resource (positions capped
/// per resource), or explicit (kind r pos cp) items: 0 substitute, 1 insert, 2 delete
fn edits_of(store: &AnnotationStore, spec: &Sx) -> Vec<Edit> {
    let mut live: Vec<(usize, Vec<char>)> = Vec::new();
    for h in 0..store.resources_len() {
        if let Some(r) = store.resource(TextResourceHandle::new(h)) {
            live.push((h, r.text().chars().collect()));
        }
    }
    let mut out = Vec::new();
    let mk = |res: usize, nth: usize, chars: &[char], kind: i64, pos: usize, c: char| -> Option<Edit> {
        let mut v = chars.to_vec();
        match kind {
            0 => {
                if pos >= v.len() || v[pos] == c {
                    return None;
                }
                v[pos] = c;
            }
            1 => {
                if pos > v.len() {
                    return None;
                }
                v.insert(pos, c);
            }
            _ => {
                if pos >= v.len() {
                    return None;
                }
                v.remove(pos);
            }
        }
        Some(Edit { res, nth, text: v.into_iter().collect(), same_len: kind == 0 })
    };
    if spec.nth(0).int() == -1 {
        let cap = spec.nth(1).int().max(1) as usize;
        for (nth, (h, chars)) in live.iter().enumerate() {
            let n = chars.len();
            let positions: Vec<usize> = if n + 1 <= cap {
                (0..=n).collect()
            } else {
                let mut p: Vec<usize> = vec![0, 1, 2, n / 2, n.saturating_sub(2), n.saturating_sub(1), n];
                p.sort();
                p.dedup();
                p
            };
            for &pos in positions.iter() {
                if pos < n {
                    let idx = ALPHA.iter().position(|c| *c == chars[pos]).unwrap_or(0);
                    // a replacement of another byte length, and the neighbouring character
                    out.extend(mk(*h, nth, chars, 0, pos, ALPHA[(idx + 1 + pos) % ALPHA.len()]));
                    if pos + 1 < n {
                        out.extend(mk(*h, nth, chars, 0, pos, chars[pos + 1]));
                    }
                    out.extend(mk(*h, nth, chars, 2, pos, 'x'));
                    // doubling a character: the text grows without a new character appearing
                    out.extend(mk(*h, nth, chars, 1, pos, chars[pos]));
                }
                out.extend(mk(*h, nth, chars, 1, pos, ALPHA[(pos * 5 + 3) % ALPHA.len()]));
            }
        }
    } else {
        for e in spec.list() {
            let r = e.nth(1).int() as usize;
            if let Some(nth) = live.iter().position(|(h, _)| *h == r) {
                let c = char::from_u32(e.nth(3).int() as u32).unwrap_or('x');
                out.extend(mk(r, nth, &live[nth].1, e.nth(0).int(), e.nth(2).int() as usize, c));
            }
        }
    }
    out
}

impl Ctx {
    pub fn new() -> Self {
        let dir = workdir();
        let _ = std::fs::create_dir_all(&dir);
        Ctx { dir, counter: AtomicUsize::new(0) }
    }

    /// request: (ops mode edits switches)
    pub fn exec(&self, req: &Sx) -> (Sx, Vec<Sx>, bool) {
        let flags = req.nth(3).int();
        let mut store = AnnotationStore::new(cfg_with(flags).with_workdir(self.dir.clone()));
        let mut outs: Vec<Sx> = Vec::new();
        let mut table: BTreeMap<String, String> = BTreeMap::new();
        outs.push(a(1)); // the table check: filled in below
        for op in req.nth(0).list() {
            if op.nth(0).int() == 9 {
                collect_digests(&store, &mut table);
                let st = apply(&mut store, op);
                outs.push(if st == 1 { l(vec![a(1), a(0)]) } else { l(vec![a(st)]) });
                outs.push(verdicts(&store, false));
            } else {
                let _ = apply(&mut store, op);
            }
        }
        collect_digests(&store, &mut table);
        // can the store be written and read back at all?  (that is C05's and C11's subject: a store
        // that cannot, before protecting, is not held against text validation)
        let n = self.counter.fetch_add(1, Ordering::SeqCst);
        let fname = format!("case{}.store.stam.cbor", n % 4);
        let path = format!("{}/{}", self.dir, fname);
        let wcfg = cfg_with(flags).with_workdir(self.dir.clone());
        let json_rt = |store: &AnnotationStore| -> (Option<String>, Option<AnnotationStore>) {
            let json = guard(|| store.to_json_string(&Config::default())).and_then(|r| r.ok());
            let back = json.as_ref().and_then(|js| guard(|| AnnotationStore::from_str(js.as_str(), cfg_with(flags))).and_then(|r| r.ok()));
            (json, back)
        };
        let cbor_rt = |store: &mut AnnotationStore| -> Option<AnnotationStore> {
            let _ = std::fs::remove_file(&path);
            let saved = guard(|| {
                store.set_filename(fname.as_str());
                store.save().ok()
            })
            .flatten();
            let back = saved.and_then(|()| guard(|| AnnotationStore::from_file(fname.as_str(), wcfg.clone())).and_then(|r| r.ok()));
            let _ = std::fs::remove_file(&path);
            back
        };
        let base_json = json_rt(&store).1.is_some();
        let base_cbor = cbor_rt(&mut store).is_some();
        let st = status(guard(|| store.protect_text(mode_of(req.nth(1).int()))));
        outs.push(if st == 1 { l(vec![a(1), a(0)]) } else { l(vec![a(st)]) });
        let after = verdicts(&store, false);
        let nontrivial = after.nth(1).nth(0).int() > 0;
        outs.push(after);
        if flags == 0 {
            // the records contain reverse lookups: only with all indices on
            for h in 0..store.annotations_len() {
                outs.push(storegen::obs_annotation(&store, h));
            }
            for h in 0..store.datasets_len() {
                outs.push(obs_dataset(&store, h));
            }
        }
        let (json, jback) = json_rt(&store);
        outs.push(match (&jback, base_json) {
            (_, false) => l(vec![a(0)]),
            (None, true) => l(vec![a(-9)]),
            (Some(s2), true) => verdicts(s2, true),
        });
        let cback = cbor_rt(&mut store);
        outs.push(match (&cback, base_cbor) {
            (_, false) => l(vec![a(0)]),
            (None, true) => l(vec![a(-9)]),
            (Some(s3), true) => verdicts(s3, true),
        });
        let json = if jback.is_some() { json } else { None };
        // edits
        let mut edits_in = Vec::new();
        if let Some(js) = &json {
            for e in edits_of(&store, req.nth(2)) {
                let js2 = match replace_text(js, e.nth, &e.text) {
                    Some(x) => x,
                    None => continue,
                };
                let loaded = guard(|| AnnotationStore::from_str(js2.as_str(), cfg_with(flags)));
                match loaded {
                    None => {
                        if e.same_len {
                            edits_in.push(l(vec![a(0), a(e.res as i64), text_sx(&e.text)]));
                        } else {
                            edits_in.push(l(vec![a(1), a(e.res as i64), text_sx(&e.text), a(1), l(vec![])]));
                        }
                        outs.push(panic_sx());
                        outs.push(panic_sx());
                    }
                    Some(Err(_)) => {
                        // refused: the offsets do not fit the text any more
                        edits_in.push(l(vec![a(1), a(e.res as i64), text_sx(&e.text), a(0)]));
                        outs.push(l(vec![a(0)])); // the text selections: refused
                        outs.push(l(vec![a(0)])); // the verdicts: none
                    }
                    Some(Ok(s2)) => {
                        collect_digests(&s2, &mut table);
                        let ranges = obs_ranges(&s2);
                        if e.same_len {
                            edits_in.push(l(vec![a(0), a(e.res as i64), text_sx(&e.text)]));
                        } else {
                            edits_in.push(l(vec![a(1), a(e.res as i64), text_sx(&e.text), a(1), ranges.clone()]));
                        }
                        outs.push(ranges);
                        outs.push(verdicts(&s2, true));
                    }
                }
            }
        }
        let tb: Vec<Sx> = table.iter().map(|(t, d)| l(vec![text_sx(t), text_sx(d)])).collect();
        // the digest hypothesis, checked on the implementation's side as well
        let mut inj = true;
        let items: Vec<(&String, &String)> = table.iter().collect();
        for i in 0..items.len() {
            for j in 0..i {
                if items[i].1 == items[j].1 {
                    inj = false;
                }
            }
        }
        outs[0] = a(if inj { 1 } else { 0 });
        let input = l(vec![req.nth(0).clone(), req.nth(1).clone(), l(tb), l(edits_in), l(vec![a(base_json as i64), a(base_cbor as i64)]), a(flags)]);
        (input, outs, nontrivial)
    }
}

// ---------------------------------------------------------------------------------------------
// generation

fn rand_text(rng: &mut Rng, n: usize) -> Vec<Sx> {
    // small alphabets make equal neighbours and repeated strings likely
    let k = match rng.below(4) {
        0 => 2,
        1 => 5,
        _ => ALPHA.len(),
    };
    let off = rng.below(ALPHA.len());
    (0..n).map(|_| a(ALPHA[(off + rng.below(k)) % ALPHA.len()] as u32 as i64)).collect()
}

fn r(t: i64) -> Sx {
    l(vec![a(0), a(t)])
}
fn hnd(h: usize) -> Sx {
    l(vec![a(1), a(h as i64)])
}
fn cur(rng: &mut Rng, len: usize) -> (Sx, Sx) {
    let b = rng.below(len + 1);
    let e = b + rng.below(len + 1 - b);
    let cb = if rng.chance(1, 3) { l(vec![a(1), a(b as i64 - len as i64)]) } else { l(vec![a(0), a(b as i64)]) };
    let ce = if rng.chance(1, 3) { l(vec![a(1), a(e as i64 - len as i64)]) } else { l(vec![a(0), a(e as i64)]) };
    (cb, ce)
}

/// a target over text: single selections, complex selectors with mixed cursor alignments,
/// selections relative to annotations
fn gen_text_target(shadow: &Shadow, rng: &mut Rng) -> Option<Sx> {
    let lr: Vec<usize> = (0..shadow.res.len()).filter(|i| shadow.res[*i].2).collect();
    if lr.is_empty() {
        return None;
    }
    let one = |rng: &mut Rng| -> Sx {
        let la: Vec<usize> = (0..shadow.anns.len()).filter(|i| shadow.anns[*i].1).collect();
        if !la.is_empty() && rng.chance(1, 4) {
            let h = *rng.pick(&la);
            let n = rng.below(3);
            let cb = if rng.chance(1, 3) { l(vec![a(1), a(-(rng.below(3) as i64))]) } else { l(vec![a(0), a(n as i64)]) };
            let ce = if rng.chance(1, 2) { l(vec![a(1), a(-(rng.below(2) as i64))]) } else { l(vec![a(0), a((n + rng.below(3)) as i64)]) };
            return l(vec![a(2), hnd(h), cb, ce]);
        }
        let h = *rng.pick(&lr);
        let (cb, ce) = cur(rng, shadow.res[h].1);
        let rr = if rng.chance(1, 2) { hnd(h) } else { r(shadow.res[h].0) };
        l(vec![a(0), rr, cb, ce])
    };
    if rng.chance(1, 2) {
        let mut v = vec![a(7), a(1 + rng.below(3) as i64)];
        for _ in 0..1 + rng.below(4) {
            v.push(one(rng));
        }
        Some(l(v))
    } else {
        Some(one(rng))
    }
}

fn vdata(key: i64, val: &str) -> Sx {
    let mut v = vec![a(4)];
    v.extend(val.chars().map(|c| a(c as u32 as i64)));
    l(vec![r(VSET_TOK), a(-1), r(key), l(v)])
}

pub fn gen_request(rng: &mut Rng, max_ops: usize, long_texts: bool, cap: usize, flags: i64) -> Sx {
    // with an index switched off the store cannot find what a removal has to take along
    // (C01/C02 are stated for the default configuration): those histories only add
    let removals = flags == 0;
    let cfg = GenCfg { max_ops, removals: if removals { 2 } else { 0 }, invalid: 30, values: false };
    let mut store = new_store();
    let mut shadow = Shadow::default();
    let mut ops: Vec<Sx> = Vec::new();
    let n = 2 + rng.below(max_ops);
    let delims = ["", " ", "|", "ab", "é"];
    for _ in 0..n {
        let mut op = if rng.chance(1, 25) {
            l(vec![a(9), a(rng.below(4) as i64)])
        } else if rng.chance(2, 5) {
            match gen_text_target(&shadow, rng) {
                Some(t) => {
                    let id = if rng.chance(1, 3) { a(rng.below(8) as i64) } else { a(-1) };
                    l(vec![a(3), id, t, l(vec![])])
                }
                None => shadow.gen_op(rng, &cfg),
            }
        } else {
            shadow.gen_op(rng, &cfg)
        };
        if op.nth(0).int() == 0 {
            // a resource: the text goes with it
            let len = if long_texts && rng.chance(1, 3) { 38 + rng.below(30) } else { op.nth(2).int() as usize };
            let mut v = vec![a(0), op.nth(1).clone(), a(len as i64)];
            v.extend(rand_text(rng, len));
            op = l(v);
        }
        if op.nth(0).int() == 3 && rng.chance(1, 5) {
            // a delimiter of its own
            let mut datas = op.nth(3).list().to_vec();
            datas.push(vdata(KDEL, delims[rng.below(delims.len())]));
            op = l(vec![a(3), op.nth(1).clone(), op.nth(2).clone(), l(datas)]);
        }
        if op.nth(0).int() == 3 && rng.chance(1, 6) {
            // data of the user's own under a key that happens to be called like one of the validation
            // vocabulary, in a set that is not the validation set: no business of text validation
            let mut datas = op.nth(3).list().to_vec();
            let key = [KCHK, KTXT, KDEL][rng.below(3)];
            let val = ["zz", "|", "", "da39a3ee5e6b4b0d3255bfef95601890afd80709"][rng.below(4)];
            let mut v = vec![a(4)];
            v.extend(val.chars().map(|c| a(c as u32 as i64)));
            datas.push(l(vec![r(rng.below(3) as i64), a(-1), r(key), l(v)]));
            op = l(vec![a(3), op.nth(1).clone(), op.nth(2).clone(), l(datas)]);
        }
        let before = store.annotations_len();
        let st = apply(&mut store, &op);
        ops.push(op.clone());
        if removals && op.nth(0).int() == 3 && st == 1 && store.annotations_len() == before + 1 && rng.chance(1, 8) {
            // the same annotation once more, carrying validation information of its own (right or wrong)
            let h = AnnotationHandle::new(before);
            let info = guard(|| {
                store.annotation(h).map(|x| {
                    let d = x.text_validation_delimiter().unwrap_or("");
                    (x.text_join(d), x.text_checksum(d))
                })
            })
            .flatten();
            if let Some((j, c)) = info {
                let mut datas = op.nth(3).list().to_vec();
                match rng.below(4) {
                    0 => datas.push(vdata(KTXT, &j)),
                    1 => datas.push(vdata(KCHK, c.as_deref().unwrap_or("00"))),
                    2 => datas.push(vdata(KTXT, "zz")),
                    _ => datas.push(l(vec![r(VSET_TOK), a(-1), r(KCHK), l(vec![a(2), a(7)])])),
                }
                let rm = l(vec![a(4), hnd(before)]);
                let _ = apply(&mut store, &rm);
                ops.push(rm);
                // without an id: the removed annotation may have owned it
                let again = l(vec![a(3), a(-1), op.nth(2).clone(), l(datas)]);
                let _ = apply(&mut store, &again);
                ops.push(again);
            }
        }
        if op.nth(0).int() == 3 && st == 1 && store.annotations_len() == before + 1 && op.nth(2).nth(0).int() == 0 && rng.chance(1, 5) {
            // layers: annotations relative to the one just made, one right after the other, and a
            // complex selector that points at all of each of them
            let parent = before;
            let first = store.annotations_len();
            let k = 2 + rng.below(2);
            let mut made = Vec::new();
            for i in 0..k {
                let cb = l(vec![a(0), a(i as i64)]);
                let ce = if rng.chance(1, 2) { l(vec![a(1), a(0)]) } else { l(vec![a(0), a(i as i64 + 1)]) };
                let rel = l(vec![a(3), a(-1), l(vec![a(2), hnd(parent), cb, ce]), l(vec![])]);
                if apply(&mut store, &rel) == 1 {
                    made.push(first + made.len());
                }
                ops.push(rel);
            }
            if made.len() >= 2 && store.annotations_len() == first + made.len() {
                let mut v = vec![a(7), a(1 + rng.below(3) as i64)];
                for h in made.iter() {
                    v.push(l(vec![a(2), hnd(*h), l(vec![a(0), a(0)]), l(vec![a(1), a(0)])]));
                }
                let grp = l(vec![a(3), a(-1), l(v), l(vec![])]);
                let _ = apply(&mut store, &grp);
                ops.push(grp);
            }
        }
        if op.nth(0).int() == 3 && st == 1 && rng.chance(1, 6) {
            // a twin: the same target once more (equal texts share their validation data)
            let twin = l(vec![a(3), a(-1), op.nth(2).clone(), l(vec![])]);
            let _ = apply(&mut store, &twin);
            ops.push(twin);
        }
        if guard(|| shadow.sync(&store)).is_none() {
            break;
        }
    }
    l(vec![l(ops), a(rng.below(4) as i64), l(vec![a(-1), a(cap as i64)]), a(flags)])
}

/// what a case exercised: read from the request, the model input and the implementation's answers
fn coverage(out: &mut Out, req: &Sx, input: &Sx, obs: &[Sx]) {
    out.count(&format!("mode_{}", req.nth(1).int()));
    if req.nth(3).int() != 0 {
        out.count("index_switched_off");
        for b in 0..6 {
            if req.nth(3).int() & (1 << b) != 0 {
                out.count(&format!("index_switch_{}_off", b));
            }
        }
    }
    for e in input.nth(3).list() {
        out.count(match (e.nth(0).int(), e.nth(3).int()) {
            (0, _) => "edit_same_length",
            (_, 0) => "edit_refused_by_loader",
            _ => "edit_other_length_loaded",
        });
    }
    if input.nth(4).nth(0).int() == 0 {
        out.count("json_round_trip_impossible_before_protect");
    }
    if input.nth(4).nth(1).int() == 0 {
        out.count("cbor_round_trip_impossible_before_protect");
    }
    let mut protects = 0;
    for op in req.nth(0).list() {
        match op.nth(0).int() {
            9 => protects += 1,
            3 => {
                let t = op.nth(2);
                match t.nth(0).int() {
                    0 => out.count("target_text"),
                    2 => out.count("target_annotation_relative"),
                    7 => out.count(match t.nth(1).int() {
                        1 => "target_multi",
                        2 => "target_composite",
                        _ => "target_directional",
                    }),
                    _ => out.count("target_without_text"),
                }
                for d in op.nth(3).list() {
                    if !(d.nth(0).nth(1).int() == VSET_TOK && d.nth(0).nth(0).int() == 0) && [KCHK, KTXT, KDEL].contains(&d.nth(2).nth(1).int()) && d.nth(2).nth(0).int() == 0 {
                        out.count("namesake_key_in_another_set");
                    }
                    if d.nth(0).nth(1).int() == VSET_TOK && d.nth(0).nth(0).int() == 0 {
                        out.count(match d.nth(2).nth(1).int() {
                            KDEL => "own_delimiter",
                            KCHK => "hand_carried_checksum",
                            KTXT => "hand_carried_text",
                            _ => "other_validation_set_data",
                        });
                    }
                }
            }
            _ => {}
        }
    }
    if protects > 0 {
        out.count("protect_in_the_middle");
    }
    // verdict lists: every observation of the form ((v...) (valid invalid missing))
    for o in obs {
        if o.list().len() == 2 && o.nth(1).list().len() == 3 {
            out.count_n("verdict_valid", o.nth(1).nth(0).int() as u64);
            out.count_n("verdict_invalid", o.nth(1).nth(1).int() as u64);
            out.count_n("verdict_missing", o.nth(1).nth(2).int() as u64);
        }
    }
}

/// exhaustive small scope: one resource of three characters, two annotations from a pool of
/// targets (all begin-aligned ranges, end-aligned and mixed cursors, two-part Multi and
/// Directional selections, an annotation-relative selection), the four modes, every single edit
fn small_scope(out: &mut Out, ctx: &Ctx, thorough: bool) {
    let c = |n: i64| l(vec![a(0), a(n)]);
    let e = |n: i64| l(vec![a(1), a(n)]);
    let t = |b: Sx, en: Sx| l(vec![a(0), r(0), b, en]);
    let mut pool: Vec<Sx> = Vec::new();
    for b in 0..=3 {
        for en in b..=3 {
            pool.push(t(c(b), c(en)));
        }
    }
    pool.push(t(c(1), e(-1)));
    pool.push(t(e(-2), e(0)));
    pool.push(t(e(-3), c(2)));
    pool.push(l(vec![a(7), a(1), t(c(2), c(3)), t(c(0), c(1))]));
    pool.push(l(vec![a(7), a(3), t(c(2), c(3)), t(c(0), c(1))]));
    pool.push(l(vec![a(7), a(1), t(c(0), e(-2)), t(e(-2), c(3))]));
    pool.push(l(vec![a(7), a(2), t(c(0), c(2)), t(c(1), c(1)), t(e(-1), e(0))]));
    pool.push(l(vec![a(2), hnd(0), c(0), e(-1)]));
    let texts: Vec<[i64; 3]> = if thorough {
        let mut v = Vec::new();
        for x in [97i64, 233] {
            for y in [97i64, 233] {
                for z in [97i64, 233] {
                    v.push([x, y, z]);
                }
            }
        }
        v.push([128512, 97, 128512]);
        v
    } else {
        vec![[97, 97, 97], [97, 233, 97], [97, 97, 233]]
    };
    // the threshold of the automatic mode (40 characters), single and summed over the parts
    {
        let len = 45usize;
        let text: Vec<Sx> = (0..len).map(|i| a(ALPHA[(i * 7 + i / 5) % ALPHA.len()] as u32 as i64)).collect();
        let mut res = vec![a(0), a(0), a(len as i64)];
        res.extend(text);
        for total in [38i64, 39, 40, 41, 42] {
            for split in [0i64, 1, 20] {
                let target = if split == 0 {
                    t(c(2), c(2 + total))
                } else {
                    // two parts that overlap by one character: the lengths add up to [total]
                    l(vec![a(7), a(1 + (total % 3)), t(c(1), c(1 + split)), t(c(split), c(split + total - split))])
                };
                for mode in [3i64, 0, 2] {
                    let ops = vec![l(res.clone()), l(vec![a(3), a(-1), target.clone(), l(vec![])])];
                    let req = l(vec![l(ops), a(mode), l(vec![a(-1), a(9)])]);
                    let (input, o, nt) = ctx.exec(&req);
                    coverage(out, &req, &input, &o);
                    out.count("auto_threshold_case");
                    out.case(&input, &o, nt, &req);
                }
            }
        }
    }
    // three layers: an annotation on text, annotations on it with a relative offset created one
    // right after the other, and complex selectors that point with the whole-offset (B0..E0) at runs
    // of those (the store fuses such runs into an internal range)
    {
        let whole = |h: usize| l(vec![a(2), hnd(h), c(0), e(0)]);
        let text8: Vec<i64> = vec![97, 233, 98, 28450, 99, 128512, 100, 101];
        let mut res = vec![a(0), a(0), a(8)];
        res.extend(text8.iter().map(|x| a(*x)));
        let base = vec![
            l(res),
            l(vec![a(3), a(-1), t(c(1), c(7)), l(vec![])]),                            // 0: "on text"
            l(vec![a(3), a(-1), l(vec![a(2), hnd(0), c(0), c(2)]), l(vec![])]),        // 1
            l(vec![a(3), a(-1), l(vec![a(2), hnd(0), c(2), c(3)]), l(vec![])]),        // 2
            l(vec![a(3), a(-1), l(vec![a(2), hnd(0), c(3), e(0)]), l(vec![])]),        // 3
            l(vec![a(3), a(-1), t(c(0), c(1)), l(vec![])]),                            // 4: on text again
        ];
        let groups: Vec<Vec<Sx>> = vec![
            vec![whole(1), whole(2)],
            vec![whole(1), whole(2), whole(3)],
            vec![whole(2), whole(3)],
            vec![t(c(0), c(1)), whole(1), whole(2)],
            vec![whole(2), whole(3), t(c(7), c(8))],
            vec![whole(0), whole(1)],
            vec![whole(3), whole(4)],
            vec![whole(1), whole(3)],
        ];
        let mut n = 0usize;
        for g in groups.iter() {
            for kind in 1..=3i64 {
                for mode in 0..4i64 {
                    n += 1;
                    let mut v = vec![a(7), a(kind)];
                    v.extend(g.iter().cloned());
                    let mut ops = base.clone();
                    let data = if n % 3 == 0 { l(vec![vdata(KDEL, "|")]) } else { l(vec![]) };
                    ops.push(l(vec![a(3), a(-1), l(v), data]));
                    let flags = [0i64, 0, 8, 1, 63][n % 5];
                    let req = l(vec![l(ops), a(mode), l(vec![a(-1), a(9)]), a(flags)]);
                    let (input, o, nt) = ctx.exec(&req);
                    coverage(out, &req, &input, &o);
                    out.count("three_layer_case");
                    out.case(&input, &o, nt, &req);
                }
            }
        }
    }
    let delims: [Option<&str>; 2] = [None, Some("|")];
    let step = if thorough { 1 } else { 2 };
    let mut k = 0usize;
    let mut cnt = 0usize;
    for tx in texts.iter() {
        for (i, t1) in pool.iter().enumerate() {
            for (j, t2) in pool.iter().enumerate() {
                k += 1;
                if (i + j + k) % step != 0 {
                    continue;
                }
                for mode in 0..4 {
                    let d = delims[(i + j + mode) % 2];
                    let mut data = match d {
                        Some(x) => vec![vdata(KDEL, x)],
                        None => vec![],
                    };
                    // the user's own "text" / "checksum" / "delimiter" in the set s1
                    match (i * 7 + j * 3 + mode) % 6 {
                        0 => data.push(l(vec![r(1), a(-1), r(KTXT), l(vec![a(4), a(122), a(122)])])),
                        1 => data.push(l(vec![r(1), a(-1), r(KCHK), l(vec![a(4), a(48), a(48)])])),
                        2 => data.push(l(vec![r(1), a(-1), r(KDEL), l(vec![a(4), a(35)])])),
                        _ => {}
                    }
                    let data = l(data);
                    // every index switch off in turn, all off, all on
                    cnt += 1;
                    let flags = [0i64, 1, 2, 4, 8, 16, 32, 63, 0, 9][cnt % 10];
                    let ops = vec![
                        l(vec![a(0), a(0), a(3), a(tx[0]), a(tx[1]), a(tx[2])]),
                        l(vec![a(3), a(-1), t1.clone(), l(vec![])]),
                        l(vec![a(3), a(-1), t2.clone(), data]),
                    ];
                    let req = l(vec![l(ops), a(mode as i64), l(vec![a(-1), a(9)]), a(flags)]);
                    let (input, o, nt) = ctx.exec(&req);
                    coverage(out, &req, &input, &o);
                    out.case(&input, &o, nt, &req);
                }
            }
        }
    }
}

pub fn generate(out: &mut Out, tier: &str, seed: u64) {
    let thorough = tier == "thorough";
    let ctx = Ctx::new();
    let mut rng = Rng::new(seed ^ 0xC18);
    small_scope(out, &ctx, thorough);
    let n = if thorough { 60000 } else { 800 };
    for i in 0..n {
        let flags = if i % 4 == 3 { [1i64, 2, 4, 8, 16, 32, 63, 9][rng.below(8)] } else { 0 };
        let req = gen_request(&mut rng, if i % 5 == 0 { 24 } else { 10 }, i % 3 == 0, if thorough { 12 } else { 9 }, flags);
        let (input, o, nt) = ctx.exec(&req);
        coverage(out, &req, &input, &o);
        out.case(&input, &o, nt, &req);
    }
    let _ = std::fs::remove_dir_all(&ctx.dir);
}

pub const RULE: &str = "seeded random histories (C01 generator plus annotations over text: single, Multi/Composite/Directional with mixed begin- and end-aligned cursors, annotation-relative, groups pointing with the whole-offset at runs of consecutively created annotation-relative annotations) over resources with arbitrary texts of 1-4 byte characters, delimiters of their own, hand-carried validation data, the user's own data under keys named text / checksum / delimiter in other sets, protect_text in the middle of histories; one case in four (and 7 in 10 of the small scope) under a configuration with reverse indices switched off (each of the six switches, all, text + annotation index; histories without removals; records with reverse lookups not compared there); then protect_text in one of the four modes, verdict of every annotation and the counters, every annotation and dataset record with its reverse lookups, JSON and CBOR round trip, and every single edit (substitution, insertion, deletion at every position up to a cap) of every resource text loaded through the store's own JSON. One evaluation = one compared observation.";
pub const EXHAUSTIVE: bool = false;
