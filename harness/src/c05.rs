//! C05: STAM JSON round trip.  A request describes a store (a history in the storegen encoding, or a
//! literal store with arbitrary identifiers, texts and values, see coq/Run/C05.v); the store is
//! built on the real library, written as STAM JSON (pretty and compact; stand-off members go to
//! files in a private directory), the output is parsed into a tree by a small order-preserving
//! reader, loaded again with from_str and from_file, and observed again.
use crate::out::{guard, Out};
use crate::rng::Rng;
use crate::storegen;
use crate::sx::{a, b, l, text, Sx};
use stam::*;
use std::cmp::Ordering;
use std::sync::atomic::{AtomicUsize, Ordering as AOrd};

pub struct Ctx {
    dir: String,
    counter: AtomicUsize,
    pub last_cov: std::cell::RefCell<Vec<String>>,
}

fn workbase() -> String {
    let base = std::env::var("VERIF_WORK").unwrap_or_else(|_| "/verif/.cache/work".to_string());
    format!("{}/c05/{}", base, std::process::id())
}

// ------------------------------------------------------------------------------------------
// the order on s-expressions used to compare unordered lists (coq/Run/C05.v sx_cmp)

pub fn sx_cmp(x: &Sx, y: &Sx) -> Ordering {
    match (x, y) {
        (Sx::A(p), Sx::A(q)) => p.cmp(q),
        (Sx::A(_), Sx::L(_)) => Ordering::Less,
        (Sx::L(_), Sx::A(_)) => Ordering::Greater,
        (Sx::L(p), Sx::L(q)) => {
            let mut i = 0;
            loop {
                match (p.get(i), q.get(i)) {
                    (None, None) => return Ordering::Equal,
                    (None, Some(_)) => return Ordering::Less,
                    (Some(_), None) => return Ordering::Greater,
                    (Some(u), Some(v)) => match sx_cmp(u, v) {
                        Ordering::Equal => i += 1,
                        c => return c,
                    },
                }
            }
        }
    }
}
fn sx_sort(v: &mut Vec<Sx>) {
    v.sort_by(sx_cmp);
}

// ------------------------------------------------------------------------------------------
// an order-preserving JSON reader producing the tree encoding of coq/Run/C05.v (nsx_of_json)

struct JP<'a> {
    c: Vec<char>,
    p: usize,
    _s: &'a str,
}
impl<'a> JP<'a> {
    fn ws(&mut self) {
        while self.p < self.c.len() && matches!(self.c[self.p], ' ' | '\n' | '\t' | '\r') {
            self.p += 1;
        }
    }
    fn string(&mut self) -> Option<Vec<Sx>> {
        // at the opening quote
        self.p += 1;
        let mut out: Vec<u32> = Vec::new();
        loop {
            let ch = *self.c.get(self.p)?;
            self.p += 1;
            match ch {
                '"' => break,
                '\\' => {
                    let e = *self.c.get(self.p)?;
                    self.p += 1;
                    match e {
                        '"' => out.push(34),
                        '\\' => out.push(92),
                        '/' => out.push(47),
                        'b' => out.push(8),
                        'f' => out.push(12),
                        'n' => out.push(10),
                        'r' => out.push(13),
                        't' => out.push(9),
                        'u' => {
                            let hex: String = self.c.get(self.p..self.p + 4)?.iter().collect();
                            self.p += 4;
                            let mut v = u32::from_str_radix(&hex, 16).ok()?;
                            if (0xD800..0xDC00).contains(&v) {
                                if self.c.get(self.p) == Some(&'\\') && self.c.get(self.p + 1) == Some(&'u') {
                                    let hex2: String = self.c.get(self.p + 2..self.p + 6)?.iter().collect();
                                    let lo = u32::from_str_radix(&hex2, 16).ok()?;
                                    self.p += 6;
                                    v = 0x10000 + ((v - 0xD800) << 10) + (lo - 0xDC00);
                                } else {
                                    return None;
                                }
                            }
                            out.push(v);
                        }
                        _ => return None,
                    }
                }
                c => out.push(c as u32),
            }
        }
        Some(out.into_iter().map(|c| a(c as i64)).collect())
    }
    fn value(&mut self) -> Option<Sx> {
        self.ws();
        let ch = *self.c.get(self.p)?;
        match ch {
            '{' => {
                self.p += 1;
                let mut members: Vec<(Vec<Sx>, Sx)> = Vec::new();
                self.ws();
                if self.c.get(self.p) == Some(&'}') {
                    self.p += 1;
                } else {
                    loop {
                        self.ws();
                        if self.c.get(self.p) != Some(&'"') {
                            return None;
                        }
                        let k = self.string()?;
                        self.ws();
                        if self.c.get(self.p) != Some(&':') {
                            return None;
                        }
                        self.p += 1;
                        let v = self.value()?;
                        members.push((k, v));
                        self.ws();
                        match self.c.get(self.p) {
                            Some(',') => self.p += 1,
                            Some('}') => {
                                self.p += 1;
                                break;
                            }
                            _ => return None,
                        }
                    }
                }
                // the sub-selectors of a MultiSelector / CompositeSelector are compared as sorted lists
                let tname = |s: &str| -> Vec<Sx> { s.chars().map(|c| a(c as u32 as i64)).collect() };
                let ty = members.iter().find(|(k, _)| *k == tname("@type")).map(|(_, v)| v.clone());
                let unordered = match ty {
                    Some(Sx::L(v)) if v.first() == Some(&a(3)) => v[1..] == tname("MultiSelector")[..] || v[1..] == tname("CompositeSelector")[..],
                    _ => false,
                };
                let mut out = vec![a(5)];
                for (k, v) in members {
                    let v = if unordered && k == tname("selectors") {
                        match v {
                            Sx::L(mut items) if items.first() == Some(&a(4)) => {
                                let mut rest = items.split_off(1);
                                sx_sort(&mut rest);
                                items.extend(rest);
                                Sx::L(items)
                            }
                            other => other,
                        }
                    } else {
                        v
                    };
                    out.push(l(vec![l(k), v]));
                }
                Some(l(out))
            }
            '[' => {
                self.p += 1;
                let mut out = vec![a(4)];
                self.ws();
                if self.c.get(self.p) == Some(&']') {
                    self.p += 1;
                    return Some(l(out));
                }
                loop {
                    out.push(self.value()?);
                    self.ws();
                    match self.c.get(self.p) {
                        Some(',') => self.p += 1,
                        Some(']') => {
                            self.p += 1;
                            break;
                        }
                        _ => return None,
                    }
                }
                Some(l(out))
            }
            '"' => {
                let s = self.string()?;
                let mut out = vec![a(3)];
                out.extend(s);
                Some(l(out))
            }
            't' => {
                self.p += 4;
                Some(l(vec![a(1), a(1)]))
            }
            'f' => {
                self.p += 5;
                Some(l(vec![a(1), a(0)]))
            }
            'n' => {
                self.p += 4;
                Some(l(vec![a(0)]))
            }
            _ => {
                let start = self.p;
                while self.p < self.c.len() && matches!(self.c[self.p], '0'..='9' | '-' | '+' | '.' | 'e' | 'E') {
                    self.p += 1;
                }
                if self.p == start {
                    return None;
                }
                let mut out = vec![a(2)];
                out.extend(self.c[start..self.p].iter().map(|c| a(*c as u32 as i64)));
                Some(l(out))
            }
        }
    }
}
pub fn json_tree(s: &str) -> Sx {
    let mut p = JP { c: s.chars().collect(), p: 0, _s: s };
    match p.value() {
        Some(v) => {
            p.ws();
            if p.p == p.c.len() {
                v
            } else {
                a(-7)
            }
        }
        None => a(-7),
    }
}

// ------------------------------------------------------------------------------------------
// observations

fn ostr(o: Option<&str>) -> Sx {
    match o {
        Some(s) => text(s),
        None => a(-1),
    }
}
fn ann_name(x: &ResultItem<Annotation>) -> String {
    match x.id() {
        Some(i) => i.to_string(),
        None => format!("!A{}", x.handle().as_usize()),
    }
}
fn data_name(x: &ResultItem<AnnotationData>) -> String {
    match x.id() {
        Some(i) => i.to_string(),
        None => format!("!D{}", x.handle().as_usize()),
    }
}
pub fn value_sx(v: &DataValue) -> Sx {
    match v {
        DataValue::Null => l(vec![a(0)]),
        DataValue::Bool(x) => l(vec![a(1), a(*x as i64)]),
        DataValue::Int(i) => l(vec![a(2), a(*i as i64)]),
        DataValue::Float(f) => l(vec![a(3), a((f * 1000.0).round() as i64)]),
        DataValue::String(s) => {
            let mut v = vec![a(4)];
            v.extend(s.chars().map(|c| a(c as u32 as i64)));
            l(v)
        }
        DataValue::List(items) => {
            let mut v = vec![a(5)];
            v.extend(items.iter().map(value_sx));
            l(v)
        }
        DataValue::Datetime(_) => {
            // the text the library itself writes for the value
            let j = serde_json::to_value(v).ok();
            let s = j.as_ref().and_then(|j| j.get("value")).and_then(|x| x.as_str()).unwrap_or("?").to_string();
            let mut v = vec![a(6)];
            v.extend(s.chars().map(|c| a(c as u32 as i64)));
            l(v)
        }
    }
}
pub fn value_of(x: &Sx) -> DataValue {
    match x.nth(0).int() {
        0 => DataValue::Null,
        1 => DataValue::Bool(x.nth(1).int() != 0),
        2 => DataValue::Int(x.nth(1).int() as isize),
        3 => DataValue::Float(x.nth(1).int() as f64 / 1000.0),
        4 => DataValue::String(x.list()[1..].iter().filter_map(|c| char::from_u32(c.int() as u32)).collect()),
        5 => DataValue::List(x.list()[1..].iter().map(value_of).collect()),
        _ => {
            let s: String = x.list()[1..].iter().filter_map(|c| char::from_u32(c.int() as u32)).collect();
            match DateTime::parse_from_rfc3339(&s) {
                Ok(dt) => DataValue::Datetime(dt),
                Err(_) => DataValue::Null,
            }
        }
    }
}
fn cursor_sx(c: &Cursor) -> Sx {
    match c {
        Cursor::BeginAligned(n) => l(vec![a(0), a(*n as i64)]),
        Cursor::EndAligned(z) => l(vec![a(1), a(*z as i64)]),
    }
}
fn offset_sx(o: &Offset) -> Sx {
    l(vec![cursor_sx(&o.begin), cursor_sx(&o.end)])
}
fn abs_sx(store: &AnnotationStore, r: TextResourceHandle, t: TextSelectionHandle) -> Sx {
    match store.resource(r) {
        Some(res) => match res.textselection_by_handle(t) {
            Ok(ts) => l(vec![ostr(res.id()), a(ts.begin() as i64), a(ts.end() as i64)]),
            Err(_) => a(-3),
        },
        None => a(-3),
    }
}
fn name_of_ann(store: &AnnotationStore, h: AnnotationHandle) -> Sx {
    match store.annotation(h) {
        Some(x) => text(&ann_name(&x)),
        None => a(-3),
    }
}

/// the canonical observation of a store (coq/Run/C05.v sx_cstore)
pub fn observe(store: &AnnotationStore) -> Sx {
    let mut ress = Vec::new();
    for h in 0..store.resources_len() {
        if let Some(r) = store.resource(TextResourceHandle::new(h)) {
            ress.push(l(vec![ostr(r.id()), text(r.text()), ostr(r.as_ref().filename())]));
        }
    }
    let mut sets = Vec::new();
    for h in 0..store.datasets_len() {
        if let Some(s) = store.dataset(AnnotationDataSetHandle::new(h)) {
            let keys: Vec<Sx> = s.keys().map(|k| ostr(k.id())).collect();
            let data: Vec<Sx> = s.data().map(|d| l(vec![text(&data_name(&d)), ostr(d.key().id()), value_sx(d.value())])).collect();
            sets.push(l(vec![ostr(s.id()), ostr(s.as_ref().filename()), l(keys), l(data)]));
        }
    }
    let mut anns = Vec::new();
    for h in 0..store.annotations_len() {
        if let Some(x) = store.annotation(AnnotationHandle::new(h)) {
            let target = x.as_ref().target();
            let kind = match target.kind() {
                SelectorKind::MultiSelector => 1,
                SelectorKind::CompositeSelector => 2,
                SelectorKind::DirectionalSelector => 3,
                _ => 0,
            };
            let mut leaves = Vec::new();
            for sel in target.iter(store, false) {
                let sel = sel.as_ref();
                match sel {
                    Selector::TextSelector(r, t, _) => leaves.push(l(vec![
                        a(0),
                        ostr(store.resource(*r).and_then(|r| r.id())),
                        sel.offset(store).map(|o| offset_sx(&o)).unwrap_or(a(-1)),
                        abs_sx(store, *r, *t),
                    ])),
                    Selector::AnnotationSelector(y, Some((r, t, _))) => leaves.push(l(vec![
                        a(1),
                        name_of_ann(store, *y),
                        sel.offset(store).map(|o| offset_sx(&o)).unwrap_or(a(-1)),
                        abs_sx(store, *r, *t),
                    ])),
                    Selector::AnnotationSelector(y, None) => leaves.push(l(vec![a(1), name_of_ann(store, *y), a(-1), a(-1)])),
                    Selector::ResourceSelector(r) => leaves.push(l(vec![a(3), ostr(store.resource(*r).and_then(|r| r.id()))])),
                    Selector::DataSetSelector(d) => leaves.push(l(vec![a(4), ostr(store.dataset(*d).and_then(|d| d.id()))])),
                    Selector::DataKeySelector(d, k) => {
                        let set = store.dataset(*d);
                        leaves.push(l(vec![a(5), ostr(set.as_ref().and_then(|d| d.id())), ostr(set.as_ref().and_then(|d| d.key(*k)).and_then(|k| k.id()))]))
                    }
                    Selector::AnnotationDataSelector(d, y) => {
                        let set = store.dataset(*d);
                        let nm = set.as_ref().and_then(|d| d.annotationdata(*y)).map(|y| data_name(&y));
                        leaves.push(l(vec![a(6), ostr(set.as_ref().and_then(|d| d.id())), ostr(nm.as_deref())]))
                    }
                    _ => {}
                }
            }
            if kind == 1 || kind == 2 {
                sx_sort(&mut leaves);
            }
            let data: Vec<Sx> = x
                .as_ref()
                .raw_data()
                .iter()
                .map(|(s, d)| {
                    let set = store.dataset(*s);
                    let nm = set.as_ref().and_then(|st| st.annotationdata(*d)).map(|y| data_name(&y));
                    l(vec![ostr(nm.as_deref()), ostr(set.as_ref().and_then(|st| st.id()))])
                })
                .collect();
            anns.push(l(vec![text(&ann_name(&x)), l(data), a(kind), l(leaves)]));
        }
    }
    let main = l(vec![ostr(store.id()), l(ress), l(sets), l(anns)]);
    // sub-stores and who owns what
    let subs: Vec<Sx> = store.substores().map(|x| l(vec![ostr(x.id()), ostr(x.as_ref().filename().and_then(|p| p.to_str()))])).collect();
    let own = |h: Option<usize>| match h {
        Some(k) => a(k as i64),
        None => a(-1),
    };
    let mut rown = Vec::new();
    for h in 0..store.resources_len() {
        if let Some(r) = store.resource(TextResourceHandle::new(h)) {
            rown.push(own(r.substores().next().map(|x| x.handle().as_usize())));
        }
    }
    let mut sown = Vec::new();
    for h in 0..store.datasets_len() {
        if let Some(d) = store.dataset(AnnotationDataSetHandle::new(h)) {
            sown.push(own(d.substores().next().map(|x| x.handle().as_usize())));
        }
    }
    let mut aown = Vec::new();
    for h in 0..store.annotations_len() {
        if let Some(x) = store.annotation(AnnotationHandle::new(h)) {
            aown.push(own(x.substore().map(|x| x.handle().as_usize())));
        }
    }
    l(vec![main, l(subs), l(rown), l(sown), l(aown)])
}

/// what else must survive: every reverse lookup, by name, and id resolution
pub fn observe_ext(store: &AnnotationStore) -> Sx {
    fn names<'a, I: Iterator<Item = ResultItem<'a, Annotation>>>(it: I) -> Sx {
        l(it.map(|x| text(&ann_name(&x))).collect())
    }
    let mut out = Vec::new();
    for h in 0..store.annotations_len() {
        if let Some(x) = store.annotation(AnnotationHandle::new(h)) {
            let nm = ann_name(&x);
            let resolves = store.annotation(nm.as_str()).map(|y| y.handle() == x.handle()).unwrap_or(false);
            let txt: Vec<Sx> = x.textselections().map(|t| l(vec![ostr(t.resource().id()), a(t.begin() as i64), a(t.end() as i64), text(t.text())])).collect();
            out.push(l(vec![text(&nm), b(resolves), names(x.annotations()), l(txt)]));
        }
    }
    for h in 0..store.resources_len() {
        if let Some(r) = store.resource(TextResourceHandle::new(h)) {
            let resolves = r.id().and_then(|i| store.resource(i)).map(|y| y.handle() == r.handle()).unwrap_or(false);
            let mut sels = Vec::new();
            for t in 0..r.textselections_len() {
                if let Ok(ts) = r.textselection_by_handle(TextSelectionHandle::new(t)) {
                    let an = names(ts.annotations());
                    if !an.list().is_empty() {
                        sels.push(l(vec![a(ts.begin() as i64), a(ts.end() as i64), an]));
                    }
                }
            }
            sx_sort(&mut sels);
            out.push(l(vec![ostr(r.id()), b(resolves), a(r.textlen() as i64), names(r.annotations_as_metadata()), names(r.annotations()), l(sels)]));
        }
    }
    for h in 0..store.datasets_len() {
        if let Some(s) = store.dataset(AnnotationDataSetHandle::new(h)) {
            let resolves = s.id().and_then(|i| store.dataset(i)).map(|y| y.handle() == s.handle()).unwrap_or(false);
            let keys: Vec<Sx> = s
                .keys()
                .map(|k| {
                    let res = k.id().and_then(|i| s.key(i)).map(|y| y.handle() == k.handle()).unwrap_or(false);
                    l(vec![ostr(k.id()), b(res), l(k.data().map(|d| text(&data_name(&d))).collect()), names(k.annotations()), names(k.annotations_as_metadata())])
                })
                .collect();
            let data: Vec<Sx> = s
                .data()
                .map(|d| {
                    let nm = data_name(&d);
                    let res = s.annotationdata(nm.as_str()).map(|y| y.handle() == d.handle()).unwrap_or(false);
                    l(vec![text(&nm), b(res), names(d.annotations()), names(d.annotations_as_metadata())])
                })
                .collect();
            out.push(l(vec![ostr(s.id()), b(resolves), names(s.annotations()), l(keys), l(data)]));
        }
    }
    l(out)
}

fn layout(store: &AnnotationStore) -> Sx {
    let flags = |v: Vec<bool>| l(v.into_iter().map(b).collect());
    let mut sets = Vec::new();
    for h in 0..store.datasets_len() {
        if let Some(s) = store.dataset(AnnotationDataSetHandle::new(h)) {
            let n = s.as_ref().data_len();
            sets.push(l(vec![a(s.as_ref().keys_len() as i64), flags((0..n).map(|x| s.annotationdata(AnnotationDataHandle::new(x)).is_some()).collect())]));
        }
    }
    l(vec![
        a(store.resources_len() as i64),
        a(store.datasets_len() as i64),
        flags((0..store.annotations_len()).map(|h| store.annotation(AnnotationHandle::new(h)).is_some()).collect()),
        l(sets),
    ])
}

// ------------------------------------------------------------------------------------------
// building the store of a request

fn mode_offset(len: usize, bgn: usize, end: usize, m: i64) -> Offset {
    let cb = Cursor::BeginAligned(bgn);
    let ce = Cursor::BeginAligned(end);
    let zb = Cursor::EndAligned(bgn as isize - len as isize);
    let ze = Cursor::EndAligned(end as isize - len as isize);
    match m {
        0 => Offset::new(cb, ce),
        1 => Offset::new(cb, ze),
        2 => Offset::new(zb, ze),
        _ => Offset::new(zb, ce),
    }
}

fn leaf_builder<'a>(store: &AnnotationStore, x: &Sx) -> Option<SelectorBuilder<'a>> {
    let n = |i: usize| x.nth(i).int() as usize;
    Some(match x.nth(0).int() {
        0 => {
            let r = store.resource(TextResourceHandle::new(n(1)))?;
            SelectorBuilder::TextSelector(BuildItem::Handle(r.handle()), mode_offset(r.textlen(), n(2), n(3), x.nth(4).int()))
        }
        1 => SelectorBuilder::AnnotationSelector(BuildItem::Handle(AnnotationHandle::new(n(1))), None),
        2 => {
            let p = store.annotation(AnnotationHandle::new(n(1)))?;
            let ts = p.as_ref().target().textselection(store)?;
            let (pb, pe) = (ts.begin(), ts.end());
            if n(3) < pb || n(4) < pb {
                return None;
            }
            SelectorBuilder::AnnotationSelector(BuildItem::Handle(p.handle()), Some(mode_offset(pe - pb, n(3) - pb, n(4) - pb, x.nth(5).int())))
        }
        3 => SelectorBuilder::ResourceSelector(BuildItem::Handle(TextResourceHandle::new(n(1)))),
        4 => SelectorBuilder::DataSetSelector(BuildItem::Handle(AnnotationDataSetHandle::new(n(1)))),
        5 => SelectorBuilder::DataKeySelector(BuildItem::Handle(AnnotationDataSetHandle::new(n(1))), BuildItem::Handle(DataKeyHandle::new(n(2)))),
        _ => SelectorBuilder::AnnotationDataSelector(BuildItem::Handle(AnnotationDataSetHandle::new(n(1))), BuildItem::Handle(AnnotationDataHandle::new(n(2)))),
    })
}

fn is_hole(x: &Sx) -> bool {
    matches!(x, Sx::A(_))
}

/// build the store a literal describes; removed slots are made by adding a dummy item and
/// removing it in the end.  None = the library refused a step (reported as such)
fn build_literal(lit: &Sx, cfg: Config) -> Option<AnnotationStore> {
    let mut store = AnnotationStore::new(cfg);
    if !is_hole(lit.nth(0)) {
        store = store.with_id(lit.nth(0).string());
    }
    let mut hole_res = Vec::new();
    for (i, r) in lit.nth(1).list().iter().enumerate() {
        if is_hole(r) {
            let h = store.add_resource(TextResourceBuilder::new().with_id(format!("hole-r{}", i)).with_text("x")).ok()?;
            hole_res.push(h);
        } else {
            let mut bld = TextResourceBuilder::new().with_id(r.nth(0).string()).with_text(r.nth(1).string());
            if !is_hole(r.nth(2)) {
                bld = bld.with_filename(r.nth(2).string());
            }
            store.add_resource(bld).ok()?;
        }
    }
    let mut hole_sets = Vec::new();
    let mut hole_keys = Vec::new();
    let mut hole_data = Vec::new();
    for (i, s) in lit.nth(2).list().iter().enumerate() {
        if is_hole(s) {
            let h = store.add_dataset(AnnotationDataSetBuilder::new().with_id(format!("hole-s{}", i))).ok()?;
            hole_sets.push(h);
            continue;
        }
        let sh = store.add_dataset(AnnotationDataSetBuilder::new().with_id(s.nth(0).string())).ok()?;
        let set: &mut AnnotationDataSet = <AnnotationStore as StoreFor<AnnotationDataSet>>::get_mut(&mut store, sh).ok()?;
        if !is_hole(s.nth(1)) {
            set.set_filename(s.nth(1).string().as_str());
        }
        for (j, k) in s.nth(2).list().iter().enumerate() {
            if is_hole(k) {
                let kh = <AnnotationDataSet as StoreFor<DataKey>>::insert(set, DataKey::new(format!("hole-k{}", j))).ok()?;
                hole_keys.push((sh, kh));
            } else {
                <AnnotationDataSet as StoreFor<DataKey>>::insert(set, DataKey::new(k.string())).ok()?;
            }
        }
        for (j, d) in s.nth(3).list().iter().enumerate() {
            if is_hole(d) {
                // a dummy item under a dummy key of its own
                let dh = set.insert_data(BuildItem::None, BuildItem::Handle(DataKeyHandle::new(0)), DataValue::Int(-(j as isize) - 77), false).ok()?;
                hole_data.push((sh, dh));
            } else {
                let id: BuildItem<AnnotationData> = if is_hole(d.nth(0)) { BuildItem::None } else { BuildItem::Id(d.nth(0).string()) };
                set.insert_data(id, BuildItem::Handle(DataKeyHandle::new(d.nth(1).int() as usize)), value_of(d.nth(2)), false).ok()?;
            }
        }
    }
    let mut hole_anns = Vec::new();
    for x in lit.nth(3).list().iter() {
        if is_hole(x) {
            let h = store.annotate(AnnotationBuilder::new().with_target(SelectorBuilder::ResourceSelector(BuildItem::Handle(TextResourceHandle::new(0))))).ok()?;
            hole_anns.push(h);
            continue;
        }
        let mut bld = AnnotationBuilder::new();
        if !is_hole(x.nth(0)) {
            bld = bld.with_id(x.nth(0).string());
        }
        for p in x.nth(1).list() {
            bld = bld.with_existing_data(BuildItem::Handle(AnnotationDataSetHandle::new(p.nth(0).int() as usize)), BuildItem::Handle(AnnotationDataHandle::new(p.nth(1).int() as usize)));
        }
        let leaves: Option<Vec<SelectorBuilder>> = x.nth(3).list().iter().map(|lf| leaf_builder(&store, lf)).collect();
        let mut leaves = leaves?;
        let target = match x.nth(2).int() {
            0 => {
                if leaves.len() != 1 {
                    return None;
                }
                leaves.pop()?
            }
            1 => SelectorBuilder::MultiSelector(leaves),
            2 => SelectorBuilder::CompositeSelector(leaves),
            _ => SelectorBuilder::DirectionalSelector(leaves),
        };
        store.annotate(bld.with_target(target)).ok()?;
    }
    for h in hole_anns {
        store.remove_annotation(h).ok()?;
    }
    for (s, d) in hole_data {
        store.remove_data(s, d, true).ok()?;
    }
    for (s, k) in hole_keys {
        store.remove_key(s, k, true).ok()?;
    }
    for h in hole_sets {
        store.remove_dataset(h).ok()?;
    }
    for h in hole_res {
        store.remove_resource(h).ok()?;
    }
    Some(store)
}

fn res_file_rule(rmode: i64, h: usize, id: &str) -> Option<String> {
    match rmode {
        0 => None,
        1 => Some(format!("{}.txt", id)),
        2 => Some(format!("{}.json", id)),
        _ => match h % 3 {
            0 => None,
            1 => Some(format!("{}.txt", id)),
            _ => Some(format!("{}.json", id)),
        },
    }
}
fn set_file_rule(smode: i64, h: usize, id: &str, empty: bool) -> Option<String> {
    if empty {
        return None;
    }
    match smode {
        0 => None,
        1 => Some(format!("{}.annotationset.stam.json", id)),
        _ => {
            if h % 2 == 1 {
                Some(format!("{}.annotationset.stam.json", id))
            } else {
                None
            }
        }
    }
}

fn build_history(ops: &Sx, modes: &Sx, cfg: Config) -> Option<AnnotationStore> {
    let mut store = AnnotationStore::new(cfg.clone());
    for op in ops.list() {
        if op.nth(0).int() == 9 {
            // save now: the members that qualify become stand-off, the store is written
            assign_files(&mut store, modes)?;
            store.to_json_string(&cfg).ok()?;
        } else if op.nth(0).int() == 13 {
            assign_files(&mut store, modes)?;
        } else if op.nth(0).int() == 12 {
            export_copy(&mut store, op, modes, &cfg)?;
        } else if op.nth(0).int() == 10 {
            let n = op.nth(1).int();
            let _ = guard(|| store.add_new_substore(format!("sub{}", n), format!("sub{}.store.stam.json", n).as_str()));
        } else if op.nth(0).int() == 11 {
            let h = op.nth(2).int() as usize;
            let k = AnnotationSubStoreHandle::new(op.nth(3).int() as usize);
            if (op.nth(3).int() as usize) < store.substores_len() {
                let _ = guard(|| match op.nth(1).int() {
                    0 => <AnnotationStore as AssociateSubStore<TextResource>>::associate_substore(&mut store, TextResourceHandle::new(h), k),
                    1 => <AnnotationStore as AssociateSubStore<AnnotationDataSet>>::associate_substore(&mut store, AnnotationDataSetHandle::new(h), k),
                    _ => <AnnotationStore as AssociateSubStore<Annotation>>::associate_substore(&mut store, AnnotationHandle::new(h), k),
                });
            }
        } else {
            let _ = storegen::apply(&mut store, op);
        }
    }
    assign_files(&mut store, modes)?;
    Some(store)
}

/// export a copy of a member (or of the store document) to the directory backup/, under the member's own file
/// name or under another name; the store and its own files are not concerned
fn export_copy(store: &mut AnnotationStore, op: &Sx, modes: &Sx, cfg: &Config) -> Option<()> {
    let h = op.nth(2).int() as usize;
    let other = op.nth(3).int() != 0;
    match op.nth(1).int() {
        0 | 1 => {
            let r = match store.resource(TextResourceHandle::new(h)) {
                Some(r) => r,
                None => return Some(()),
            };
            let own = r.as_ref().filename().map(|f| f.to_string());
            let json = op.nth(1).int() == 1;
            let name = match (&own, other) {
                (Some(f), false) => format!("backup/{}", f),
                _ => format!("backup/copy-r{}.{}", h, if json { "json" } else { "txt" }),
            };
            if json {
                r.as_ref().to_json_file(&name, r.as_ref().config()).ok()?;
            } else {
                r.as_ref().to_txt_file(&name).ok()?;
            }
        }
        2 => {
            let d = match store.dataset(AnnotationDataSetHandle::new(h)) {
                Some(d) => d,
                None => return Some(()),
            };
            let own = d.as_ref().filename().map(|f| f.to_string());
            let name = match (&own, other) {
                (Some(f), false) => format!("backup/{}", f),
                _ => format!("backup/copy-s{}.annotationset.stam.json", h),
            };
            d.as_ref().to_json_file(&name, d.as_ref().config()).ok()?;
        }
        _ => {
            // the store document elsewhere: a serialisation like any other (the stand-off members are flushed)
            assign_files(store, modes)?;
            let name = if other { "backup/copy.store.stam.json" } else { "backup/main.store.stam.json" };
            store.to_json_file(name, cfg).ok()?;
        }
    }
    Some(())
}

fn assign_files(store: &mut AnnotationStore, modes: &Sx) -> Option<()> {
    let (rmode, smode) = (modes.nth(0).int(), modes.nth(1).int());
    for h in 0..store.resources_len() {
        let hd = TextResourceHandle::new(h);
        let (id, _len) = match store.resource(hd) {
            Some(r) => (r.id().unwrap_or("").to_string(), r.textlen()),
            None => continue,
        };
        if _len == 0 {
            // (an empty text is not flushed after set_filename: the library takes it for text that is
            // not loaded yet; through the builder an empty stand-off text is written, see the literals)
            continue;
        }
        if let Some(f) = res_file_rule(rmode, h, &id) {
            let r: &mut TextResource = <AnnotationStore as StoreFor<TextResource>>::get_mut(store, hd).ok()?;
            if r.filename().is_none() {
                r.set_filename(f.as_str());
            }
        }
    }
    for h in 0..store.datasets_len() {
        let hd = AnnotationDataSetHandle::new(h);
        let (id, empty) = match store.dataset(hd) {
            Some(s) => (s.id().unwrap_or("").to_string(), s.as_ref().keys_len() == 0 && s.as_ref().data_len() == 0),
            None => continue,
        };
        if let Some(f) = set_file_rule(smode, h, &id, empty) {
            let s: &mut AnnotationDataSet = <AnnotationStore as StoreFor<AnnotationDataSet>>::get_mut(store, hd).ok()?;
            if s.filename().is_none() {
                s.set_filename(f.as_str());
            }
        }
    }
    Some(())
}

fn dir_snapshot(dir: &str, skip: &[&str]) -> Vec<(String, Vec<u8>)> {
    let mut v = Vec::new();
    if let Ok(rd) = std::fs::read_dir(dir) {
        for e in rd.flatten() {
            let name = e.file_name().to_string_lossy().to_string();
            if skip.contains(&name.as_str()) {
                continue;
            }
            if let Ok(bytes) = std::fs::read(e.path()) {
                v.push((name, bytes));
            }
        }
    }
    v.sort();
    v
}
fn files_sx(snap: &[(String, Vec<u8>)]) -> Sx {
    let mut v: Vec<Sx> = snap
        .iter()
        .map(|(n, bytes)| {
            let s = String::from_utf8_lossy(bytes).to_string();
            let content = if n.ends_with(".json") {
                l(vec![a(1), json_tree(&s)])
            } else {
                let mut t = vec![a(0)];
                t.extend(s.chars().map(|c| a(c as u32 as i64)));
                l(t)
            };
            l(vec![text(n), content])
        })
        .collect();
    sx_sort(&mut v);
    l(v)
}

fn cov_of(store: &AnnotationStore, out: &mut Vec<String>) {
    let mut gaps = false;
    for h in 0..store.annotations_len() {
        match store.annotation(AnnotationHandle::new(h)) {
            None => gaps = true,
            Some(x) => {
                if x.id().is_none() {
                    out.push("ann_without_id".into());
                }
                for sel in x.as_ref().target().iter(store, false) {
                    out.push(
                        match sel.as_ref() {
                            Selector::TextSelector(_, _, m) => match m {
                                OffsetMode::BeginBegin => "sel_text_bb",
                                OffsetMode::BeginEnd => "sel_text_be",
                                OffsetMode::EndEnd => "sel_text_ee",
                                OffsetMode::EndBegin => "sel_text_eb",
                            },
                            Selector::AnnotationSelector(_, Some(_)) => "sel_annotation_offset",
                            Selector::AnnotationSelector(_, None) => "sel_annotation",
                            Selector::ResourceSelector(..) => "sel_resource",
                            Selector::DataSetSelector(..) => "sel_dataset",
                            Selector::MultiSelector(..) => "sel_multi",
                            Selector::CompositeSelector(..) => "sel_composite",
                            Selector::DirectionalSelector(..) => "sel_directional",
                            Selector::DataKeySelector(..) => "sel_datakey",
                            Selector::AnnotationDataSelector(..) => "sel_annotationdata",
                            _ => "sel_other",
                        }
                        .to_string(),
                    );
                }
                if let Some(v) = x.as_ref().target().subselectors() {
                    for s in v {
                        if s.kind() == SelectorKind::InternalRangedSelector {
                            out.push("sel_internal_ranged".into());
                        }
                    }
                }
            }
        }
    }
    if gaps {
        out.push("gap_annotations".into());
    }
    for h in 0..store.resources_len() {
        match store.resource(TextResourceHandle::new(h)) {
            None => out.push("gap_resources".into()),
            Some(r) => {
                if let Some(f) = r.as_ref().filename() {
                    out.push(if f.ends_with(".json") { "standoff_resource_json".into() } else { "standoff_resource_txt".into() });
                }
            }
        }
    }
    for h in 0..store.datasets_len() {
        match store.dataset(AnnotationDataSetHandle::new(h)) {
            None => out.push("gap_datasets".into()),
            Some(s) => {
                if s.as_ref().filename().is_some() {
                    out.push("standoff_dataset".into());
                }
                if (0..s.as_ref().keys_len()).any(|j| s.key(DataKeyHandle::new(j)).is_none()) {
                    out.push("gap_keys".into());
                }
                if (0..s.as_ref().data_len()).any(|j| s.annotationdata(AnnotationDataHandle::new(j)).is_none()) {
                    out.push("gap_data".into());
                }
                for d in s.data() {
                    if d.id().is_none() {
                        out.push("data_without_id".into());
                    }
                    out.push(
                        match d.value() {
                            DataValue::Null => "val_null",
                            DataValue::String(_) => "val_string",
                            DataValue::Bool(_) => "val_bool",
                            DataValue::Int(_) => "val_int",
                            DataValue::Float(_) => "val_float",
                            DataValue::List(_) => "val_list",
                            DataValue::Datetime(_) => "val_datetime",
                        }
                        .to_string(),
                    );
                }
            }
        }
    }
    if store.substores_len() > 0 {
        out.push("substores".into());
        for sub in store.substores() {
            if sub.datasets().any(|d| d.as_ref().filename().is_some()) {
                out.push("substore_with_standoff_dataset".into());
            }
            if sub.resources().any(|r| r.as_ref().filename().is_some()) {
                out.push("substore_with_standoff_resource".into());
            }
            if sub.annotations().any(|x| x.id().is_none()) {
                out.push("substore_with_idless_annotation".into());
            }
        }
    }
    out.sort();
    out.dedup();
}

const N_SUB: usize = 8;

impl Ctx {
    pub fn new() -> Self {
        let dir = workbase();
        let _ = std::fs::create_dir_all(&dir);
        Ctx { dir, counter: AtomicUsize::new(0), last_cov: std::cell::RefCell::new(Vec::new()) }
    }

    fn config(&self, dir: &str, compact: bool) -> Config {
        Config::default().with_generate_ids(false).with_debug(false).with_workdir(dir.to_string()).with_dataformat(DataFormat::Json { compact })
    }

    pub fn exec(&self, req: &Sx) -> (Sx, Vec<Sx>, bool) {
        let n = self.counter.fetch_add(1, AOrd::SeqCst);
        let dir = format!("{}/w{}", self.dir, n % 8);
        let _ = std::fs::remove_dir_all(&dir);
        let _ = std::fs::create_dir_all(format!("{}/backup", dir));
        let r = guard(|| self.exec_in(req, &dir));
        let _ = std::fs::remove_dir_all(&dir);
        match r {
            Some((o, nt)) => (req.clone(), o, nt),
            None => (req.clone(), vec![a(1), l(vec![a(-1)])], false),
        }
    }

    /// a store loaded from one directory and written to another (absolute and relative target), and the store of
    /// the request built in memory once more and written with to_file() as the first thing that names it
    /// (absolute working directory; every fourth request: no working directory at all, relative target)
    fn to_file_elsewhere(&self, req: &Sx, dir: &str, cfg: &Config, expect: &Sx, expect_ext: &Sx) -> i64 {
        let same = |s: &AnnotationStore| observe(s) == *expect && observe_ext(s) == *expect_ext;
        for (i, sub) in ["moved", "moved2"].iter().enumerate() {
            let _ = std::fs::create_dir_all(format!("{}/{}", dir, sub));
            let mut s4 = match AnnotationStore::from_file("main.store.stam.json", cfg.clone()) {
                Ok(s) => s,
                Err(_) => return -20,
            };
            let target = if i == 0 { format!("{}/{}/main.store.stam.json", dir, sub) } else { format!("{}/other.store.stam.json", sub) };
            if s4.to_file(&target).is_err() {
                return -21 - i as i64;
            }
            match AnnotationStore::from_file(&target, cfg.clone()) {
                Ok(s5) => {
                    if !same(&s5) {
                        return -23 - i as i64;
                    }
                }
                Err(_) => return -25 - i as i64,
            }
        }
        // built in memory
        let n = self.counter.load(AOrd::SeqCst);
        let relative = n % 4 == 1;
        let mdir = format!("{}/mem", dir);
        let _ = std::fs::create_dir_all(format!("{}/backup", mdir));
        let _ = std::fs::create_dir_all(format!("{}/out", mdir));
        let old_cwd = std::env::current_dir().ok();
        let mcfg = if relative {
            if std::env::set_current_dir(&mdir).is_err() {
                return -30;
            }
            Config::default().with_generate_ids(false).with_debug(false)
        } else {
            self.config(&mdir, false)
        };
        let result = guard(|| {
            let built = if req.nth(0).int() == 0 { build_history(req.nth(1), req.nth(2), mcfg.clone()) } else { build_literal(req.nth(1), mcfg.clone()) };
            let mut st = match built {
                Some(s) => s,
                None => return -31,
            };
            let target = if relative { "out/mem.store.stam.json".to_string() } else { format!("{}/out/mem.store.stam.json", mdir) };
            if st.to_file(&target).is_err() {
                return -32;
            }
            match AnnotationStore::from_file(&target, mcfg.clone()) {
                Ok(s6) => {
                    if same(&s6) {
                        1
                    } else {
                        -33
                    }
                }
                Err(_) => -34,
            }
        })
        .unwrap_or(-35);
        if relative {
            if let Some(c) = old_cwd {
                let _ = std::env::set_current_dir(c);
            }
        }
        result
    }

    fn exec_in(&self, req: &Sx, dir: &str) -> (Vec<Sx>, bool) {
        let cfg = self.config(dir, false);
        let cfgc = self.config(dir, true);
        let built = if req.nth(0).int() == 0 { build_history(req.nth(1), req.nth(2), cfg.clone()) } else { build_literal(req.nth(1), cfg.clone()) };
        let store = match built {
            Some(s) => s,
            None => return (vec![a(1), l(vec![a(-2)])], false),
        };
        let mut cov = Vec::new();
        cov_of(&store, &mut cov);
        *self.last_cov.borrow_mut() = cov;
        let orig = observe(&store);
        let orig_ext = observe_ext(&store);
        let mut out = vec![a(1), orig.clone()];
        // first write: pretty, then compact (the stand-off files are written by the first call)
        let pretty = match store.to_json_string(&cfg) {
            Ok(s) => s,
            Err(_) => {
                out.push(l(vec![a(0)]));
                return (out, false);
            }
        };
        let compact = store.to_json_string(&cfgc).unwrap_or_default();
        out.push(json_tree(&pretty));
        out.push(json_tree(&compact));
        let snap1 = dir_snapshot(dir, &[]);
        out.push(files_sx(&snap1));
        // reload from the string and from a file
        let back = AnnotationStore::from_str(&pretty, cfg.clone());
        let store2 = match back {
            Ok(s) => s,
            Err(_) => {
                out.push(l(vec![a(0)]));
                out.push(a(0));
                out.push(l(vec![a(0), a(0), a(0), a(0)]));
                return (out, true);
            }
        };
        out.push(observe(&store2));
        out.push(layout(&store2));
        // flags
        let mut code = 1;
        if observe_ext(&store2) != orig_ext {
            code = -10;
        }
        let _ = std::fs::write(format!("{}/main.store.stam.json", dir), &compact);
        match AnnotationStore::from_file("main.store.stam.json", cfg.clone()) {
            Ok(s3) => {
                if observe(&s3) != observe(&store2) || observe_ext(&s3) != orig_ext || layout(&s3) != layout(&store2) {
                    code = -11;
                }
                // save() of the loaded store rewrites the same document
                match s3.save() {
                    Ok(()) => {
                        let again = std::fs::read_to_string(format!("{}/main.store.stam.json", dir)).unwrap_or_default();
                        if again != pretty {
                            code = -12;
                        }
                    }
                    Err(_) => code = -13,
                }
            }
            Err(_) => code = -14,
        }
        // to_file() into ANOTHER directory than the members were rooted in: all files below the store go along
        if code == 1 {
            code = self.to_file_elsewhere(req, dir, &cfg, &observe(&store2), &orig_ext);
        }
        let _ = std::fs::remove_file(format!("{}/main.store.stam.json", dir));
        let pretty2 = store2.to_json_string(&cfg).unwrap_or_default();
        let compact2 = store2.to_json_string(&cfgc).unwrap_or_default();
        let snap2 = dir_snapshot(dir, &[]);
        if code != 1 && std::env::var("C05_DEBUG").is_ok() {
            eprintln!("C05 flag code {}", code);
        }
        let flag1 = b(code == 1);
        out.push(l(vec![flag1, b(pretty2 == pretty), b(compact2 == compact), b(snap1 == snap2)]));
        debug_assert_eq!(out.len(), N_SUB);
        let nt = !orig.nth(0).nth(3).list().is_empty();
        (out, nt)
    }
}

// ------------------------------------------------------------------------------------------
// generation

const CPS: [u32; 24] = [97, 98, 122, 65, 48, 57, 32, 34, 92, 47, 10, 9, 1, 31, 127, 233, 223, 0x3b1, 0x6f22, 0x20ac, 0xffff, 0x1f600, 0x10ffff, 0x2028];

fn gen_str(rng: &mut Rng, maxlen: usize) -> Vec<Sx> {
    let n = rng.below(maxlen + 1);
    (0..n).map(|_| a(CPS[rng.below(CPS.len())] as i64)).collect()
}
fn gen_id(rng: &mut Rng, used: &mut Vec<Vec<Sx>>, prefix: char) -> Sx {
    loop {
        let mut v = vec![a(prefix as u32 as i64)];
        if rng.chance(1, 2) {
            v.push(a(48 + rng.below(10) as i64));
        } else {
            v.extend(gen_str(rng, 4));
        }
        if !used.contains(&v) {
            used.push(v.clone());
            return l(v);
        }
    }
}
const DATES: [&str; 5] = ["2024-02-29T12:30:00.250+01:00", "1999-12-31T23:59:59Z", "2001-01-01T00:00:00-05:30", "0001-01-01T00:00:00Z", "2030-06-15T08:00:00.000000001+14:00"];
pub fn gen_rich_value(rng: &mut Rng, depth: usize) -> Sx {
    match rng.below(if depth >= 2 { 6 } else { 7 }) {
        0 => l(vec![a(0)]),
        1 => l(vec![a(1), a(rng.below(2) as i64)]),
        2 => l(vec![a(2), a(match rng.below(5) { 0 => 0, 1 => 4_000_000_000_000_000_000, 2 => -4_000_000_000_000_000_000, _ => rng.range(-100000, 100000) })]),
        3 => l(vec![a(3), a(match rng.below(4) { 0 => 0, 1 => rng.range(-5, 5) * 1000, _ => rng.range(-2000000, 2000000) })]),
        4 => {
            let mut v = vec![a(4)];
            v.extend(gen_str(rng, 8));
            l(v)
        }
        5 => {
            let mut v = vec![a(6)];
            v.extend(DATES[rng.below(DATES.len())].chars().map(|c| a(c as u32 as i64)));
            l(v)
        }
        _ => {
            let mut v = vec![a(5)];
            for _ in 0..rng.below(4) {
                v.push(gen_rich_value(rng, depth + 1));
            }
            l(v)
        }
    }
}

/// a random literal store (see coq/Run/C05.v for the format)
pub fn gen_literal(rng: &mut Rng, holes: bool, standoff: bool) -> Sx {
    let hole = |rng: &mut Rng| holes && rng.chance(1, 5);
    let mut fcount = 0;
    // resources: (live?, len)
    let mut used = Vec::new();
    let mut ress = Vec::new();
    let mut rinfo: Vec<Option<usize>> = Vec::new();
    for _ in 0..(1 + rng.below(3)) {
        if !rinfo.is_empty() && hole(rng) {
            ress.push(a(-1));
            rinfo.push(None);
            continue;
        }
        let t = gen_str(rng, 12);
        let mut id = gen_id(rng, &mut used, 'r');
        let mut file = a(-1);
        if standoff && rng.chance(1, 2) {
            fcount += 1;
            let name = if rng.chance(1, 2) { format!("f{}.txt", fcount) } else { format!("f{}.res.json", fcount) };
            file = text(&name);
            if rng.chance(1, 3) {
                id = text(&name); // identifier = file name: "@id" is left out
            }
        }
        rinfo.push(Some(t.len()));
        ress.push(l(vec![id, l(t), file]));
    }
    // the first resource slot must be usable for dummy annotations: it is (never a hole)
    let mut sets = Vec::new();
    let mut sinfo: Vec<Option<(Vec<bool>, Vec<bool>)>> = Vec::new();
    let mut used_s = Vec::new();
    for _ in 0..rng.below(3) {
        if hole(rng) {
            sets.push(a(-1));
            sinfo.push(None);
            continue;
        }
        let id = gen_id(rng, &mut used_s, 's');
        let mut used_k = Vec::new();
        let mut keys = vec![gen_id(rng, &mut used_k, 'k')];
        let mut klive = vec![true];
        for _ in 0..rng.below(3) {
            if hole(rng) {
                keys.push(a(-1));
                klive.push(false);
            } else {
                keys.push(gen_id(rng, &mut used_k, 'k'));
                klive.push(true);
            }
        }
        let mut used_d = Vec::new();
        let mut data = Vec::new();
        let mut dlive = Vec::new();
        for _ in 0..rng.below(5) {
            if hole(rng) {
                data.push(a(-1));
                dlive.push(false);
                continue;
            }
            let lk: Vec<usize> = (0..klive.len()).filter(|k| klive[*k]).collect();
            let did = if rng.chance(1, 2) { gen_id(rng, &mut used_d, 'd') } else { a(-1) };
            data.push(l(vec![did, a(*rng.pick(&lk) as i64), gen_rich_value(rng, 0)]));
            dlive.push(true);
        }
        let file = if standoff && rng.chance(1, 2) {
            fcount += 1;
            text(&format!("g{}.annotationset.stam.json", fcount))
        } else {
            a(-1)
        };
        sets.push(l(vec![id, file, l(keys), l(data)]));
        sinfo.push(Some((klive, dlive)));
    }
    // annotations: (live, Some((r,b,e)) if it has a single text selection)
    let mut anns = Vec::new();
    let mut ainfo: Vec<Option<Option<(usize, usize, usize)>>> = Vec::new();
    let mut used_a = Vec::new();
    for _ in 0..rng.below(7) {
        if hole(rng) {
            anns.push(a(-1));
            ainfo.push(None);
            continue;
        }
        let simple = |rng: &mut Rng, ainfo: &Vec<Option<Option<(usize, usize, usize)>>>, complex: bool| -> (Sx, Option<(usize, usize, usize)>) {
            for _ in 0..10 {
                match rng.below(8) {
                    0 | 1 => {
                        let lr: Vec<usize> = (0..rinfo.len()).filter(|r| rinfo[*r].is_some()).collect();
                        let r = *rng.pick(&lr);
                        let len = rinfo[r].unwrap();
                        let bg = rng.below(len + 1);
                        let en = bg + rng.below(len + 1 - bg);
                        return (l(vec![a(0), a(r as i64), a(bg as i64), a(en as i64), a(rng.below(4) as i64)]), Some((r, bg, en)));
                    }
                    2 => {
                        let la: Vec<usize> = (0..ainfo.len()).filter(|x| ainfo[*x].is_some()).collect();
                        if !la.is_empty() {
                            return (l(vec![a(1), a(*rng.pick(&la) as i64)]), None);
                        }
                    }
                    3 => {
                        let la: Vec<usize> = (0..ainfo.len()).filter(|x| matches!(ainfo[*x], Some(Some(_)))).collect();
                        if !la.is_empty() {
                            let p = *rng.pick(&la);
                            let (r, pb, pe) = ainfo[p].unwrap().unwrap();
                            let bg = pb + rng.below(pe - pb + 1);
                            let en = bg + rng.below(pe - bg + 1);
                            // (a whole-parent offset under a complex selector may be merged into an
                            // internal ranged selector, which reports begin-aligned offsets)
                            let m = if complex && bg == pb && en == pe { 0 } else { rng.below(4) };
                            return (l(vec![a(2), a(p as i64), a(r as i64), a(bg as i64), a(en as i64), a(m as i64)]), Some((r, bg, en)));
                        }
                    }
                    4 => {
                        let lr: Vec<usize> = (0..rinfo.len()).filter(|r| rinfo[*r].is_some()).collect();
                        return (l(vec![a(3), a(*rng.pick(&lr) as i64)]), None);
                    }
                    5 => {
                        let ls: Vec<usize> = (0..sinfo.len()).filter(|s| sinfo[*s].is_some()).collect();
                        if !ls.is_empty() {
                            return (l(vec![a(4), a(*rng.pick(&ls) as i64)]), None);
                        }
                    }
                    6 => {
                        let ls: Vec<usize> = (0..sinfo.len()).filter(|s| sinfo[*s].is_some()).collect();
                        if !ls.is_empty() {
                            let s = *rng.pick(&ls);
                            let kl = &sinfo[s].as_ref().unwrap().0;
                            let lk: Vec<usize> = (0..kl.len()).filter(|k| kl[*k]).collect();
                            return (l(vec![a(5), a(s as i64), a(*rng.pick(&lk) as i64)]), None);
                        }
                    }
                    _ => {
                        let ls: Vec<usize> = (0..sinfo.len()).filter(|s| sinfo[*s].is_some()).collect();
                        if !ls.is_empty() {
                            let s = *rng.pick(&ls);
                            let dl = &sinfo[s].as_ref().unwrap().1;
                            let ld: Vec<usize> = (0..dl.len()).filter(|d| dl[*d]).collect();
                            if !ld.is_empty() {
                                return (l(vec![a(6), a(s as i64), a(*rng.pick(&ld) as i64)]), None);
                            }
                        }
                    }
                }
            }
            (l(vec![a(3), a(0)]), None)
        };
        let id = if rng.chance(1, 2) { gen_id(rng, &mut used_a, 'a') } else { a(-1) };
        let mut drefs = Vec::new();
        for _ in 0..rng.below(3) {
            let ls: Vec<usize> = (0..sinfo.len()).filter(|s| sinfo[*s].is_some()).collect();
            if !ls.is_empty() {
                let s = *rng.pick(&ls);
                let dl = &sinfo[s].as_ref().unwrap().1;
                let ld: Vec<usize> = (0..dl.len()).filter(|d| dl[*d]).collect();
                if !ld.is_empty() {
                    drefs.push(l(vec![a(s as i64), a(*rng.pick(&ld) as i64)]));
                }
            }
        }
        if rng.chance(1, 4) {
            let kind = 1 + rng.below(3);
            let leaves: Vec<Sx> = (0..(1 + rng.below(3))).map(|_| simple(rng, &ainfo, true).0).collect();
            anns.push(l(vec![id, l(drefs), a(kind as i64), l(leaves)]));
            ainfo.push(Some(None));
        } else {
            let (lf, range) = simple(rng, &ainfo, false);
            anns.push(l(vec![id, l(drefs), a(0), l(vec![lf])]));
            ainfo.push(Some(range));
        }
    }
    let sid = if rng.chance(1, 3) { l(gen_str(rng, 5)) } else { a(-1) };
    // (an empty store id is no id)
    let sid = if sid.list().is_empty() { a(-1) } else { sid };
    l(vec![sid, l(ress), l(sets), l(anns)])
}

/// give the first annotation (or data item) that has a public identifier one of the form "!A5" / "!K3" / "!D0"
fn reserve_an_id(rng: &mut Rng, lit: Sx) -> Sx {
    // (numbers beyond the handles in use, or building the store would already take them for existing items)
    let ids = ["!A99", "!K97", "!D98", "!A40", "!R96"];
    let new_id = text(ids[rng.below(ids.len())]);
    let mut parts: Vec<Sx> = lit.list().to_vec();
    let mut anns: Vec<Sx> = parts[3].list().to_vec();
    for x in anns.iter_mut() {
        if let Sx::L(fields) = x {
            if let Sx::L(_) = fields[0] {
                let mut f = fields.clone();
                f[0] = new_id.clone();
                *x = l(f);
                parts[3] = l(anns);
                return l(parts);
            }
        }
    }
    let mut sets: Vec<Sx> = parts[2].list().to_vec();
    for st in sets.iter_mut() {
        if let Sx::L(sf) = st {
            let mut data: Vec<Sx> = sf[3].list().to_vec();
            for d in data.iter_mut() {
                if let Sx::L(df) = d {
                    if let Sx::L(_) = df[0] {
                        let mut f = df.clone();
                        f[0] = new_id.clone();
                        *d = l(f);
                        let mut sf2 = sf.clone();
                        sf2[3] = l(data);
                        *st = l(sf2);
                        parts[2] = l(sets);
                        return l(parts);
                    }
                }
            }
        }
    }
    l(parts)
}

fn emit(ctx: &Ctx, out: &mut Out, req: Sx) {
    let (i, o, nt) = ctx.exec(&req);
    for c in ctx.last_cov.borrow().iter() {
        out.count(c);
    }
    out.count(if req.nth(0).int() == 0 { "request_history" } else { "request_literal" });
    out.case(&i, &o, nt, &req);
}

pub fn generate(out: &mut Out, tier: &str, seed: u64) {
    let thorough = tier == "thorough";
    let ctx = Ctx::new();
    let mut rng = Rng::new(seed ^ 0xC05);
    // 1. a small exhaustive family of literal stores: every selector kind x alignment x
    //    with/without identifiers x with/without a removed slot before x stand-off or not
    for kind in 0..9 {
        for m in 0..4 {
            for ids in 0..2 {
                for gap in 0..2 {
                    for so in 0..3 {
                        emit(&ctx, out, family(kind, m, ids == 1, gap == 1, so));
                    }
                }
            }
        }
    }
    // 2. random literal stores with arbitrary identifiers, texts and values
    let n_lit = if thorough { 40000 } else { 1200 };
    for i in 0..n_lit {
        let mut lit = gen_literal(&mut rng, i % 3 != 0, i % 2 == 0);
        if i % 40 == 7 {
            // a public identifier in the reserved syntax of temporary identifiers (known class)
            lit = reserve_an_id(&mut rng, lit);
            out.count("reserved_identifier");
        }
        emit(&ctx, out, l(vec![a(1), lit]));
    }
    // 3. save, modify, save again: every kind of modification x every stand-off arrangement
    for rmode in 0..3 {
        for smode in 0..2 {
            for m in 0..N_MODS {
                for twice in 0..2 {
                    emit(&ctx, out, save_modify_save(m, rmode, smode, twice == 1));
                }
            }
        }
    }
    // 3a. exports of copies between modification and save: the members get their stand-off names (or the store
    //     was saved and then modified), a copy of a resource / dataset / the store document is written to
    //     backup/ under the member's own file name or another name, then the store is saved
    for rmode in 0..4 {
        for smode in 0..2 {
            for kind in 0..4 {
                for wher in 0..2 {
                    for variant in 0..3 {
                        out.count("request_export_copy");
                        emit(&ctx, out, export_family(kind, wher, variant, rmode, smode));
                    }
                }
            }
        }
    }
    // 3b. exhaustive small scope: a fixed prefix, then every sequence of 2 (thorough: 3) operations from an
    //     alphabet of 22 (all selector kinds, alignments, relative offsets, removals of every kind, a save)
    let alpha = alphabet();
    let depth = if thorough { 3 } else { 2 };
    let total = alpha.len().pow(depth as u32);
    for n in 0..total {
        let mut idx = Vec::new();
        let mut m = n;
        for _ in 0..depth {
            idx.push(m % alpha.len());
            m /= alpha.len();
        }
        let mut ops = prefix_ops();
        for i in idx.iter() {
            ops.push(alpha[*i].clone());
        }
        let modes = l(vec![a((idx[0] % 3) as i64), a((idx[depth - 1] % 2) as i64)]);
        out.count("request_exhaustive_history");
        emit(&ctx, out, l(vec![a(0), l(ops), modes]));
    }
    // 4. the final stores of random histories (all operations of the store model), half of them
    //    with stand-off members and saves in between
    let n_hist = if thorough { 40000 } else { 1200 };
    for i in 0..n_hist {
        let cfg = storegen::GenCfg { max_ops: if i % 4 == 0 { 40 } else { 16 }, removals: if i % 3 == 0 { 0 } else { 4 }, invalid: 25, values: true };
        let mut ops = storegen::gen_history(&mut rng, &cfg);
        let modes = if i % 2 == 0 { l(vec![a(0), a(0)]) } else { l(vec![a(rng.below(4) as i64), a(rng.below(3) as i64)]) };
        if i % 2 == 1 {
            for _ in 0..(1 + rng.below(3)) {
                let pos = rng.below(ops.len() + 1);
                ops.insert(pos, l(vec![a(9)]));
                out.count("save_in_between");
            }
            for _ in 0..rng.below(3) {
                let pos = rng.below(ops.len() + 1);
                let op = if rng.chance(1, 3) { l(vec![a(13)]) } else { l(vec![a(12), a(rng.below(4) as i64), a(rng.below(3) as i64), a(rng.below(2) as i64)]) };
                ops.insert(pos, op);
                out.count("export_or_naming_in_between");
            }
        }
        emit(&ctx, out, l(vec![a(0), l(ops), modes]));
    }
    // 5a. a sub-store (with a stand-off dataset and resource inside it or not), saved, then: an addition to the
    //     root, an addition to the sub-store (with / without public id; loading reorders those), new data in
    //     the sub-store's dataset, a removal inside the sub-store; saved again
    for rmode in 0..3 {
        for smode in 0..2 {
            for v in 0..10 {
                emit(&ctx, out, sub_family(v, rmode, smode));
            }
        }
    }
    // 5. histories with sub-stores: the items of each sub-store are made first (natural order),
    //    then the root's; one in five adds to a sub-store late (which loading reorders)
    let n_sub = if thorough { 20000 } else { 600 };
    for i in 0..n_sub {
        let req = gen_sub_history(&mut rng, i % 5 == 4);
        out.count("request_substores");
        emit(&ctx, out, req);
    }
    let _ = std::fs::remove_dir_all(&ctx.dir);
}

fn sub_family(v: usize, rmode: i64, smode: i64) -> Sx {
    let id = |t: i64| l(vec![a(0), a(t)]);
    let h = |x: i64| l(vec![a(1), a(x)]);
    let cb = |n: i64| l(vec![a(0), a(n)]);
    let int = |z: i64| l(vec![a(2), a(z)]);
    let txt = |r: i64, b: i64, e: i64| l(vec![a(0), id(r), cb(b), cb(e)]);
    let data = |idt: i64, key: i64, v: Sx| l(vec![id(0), if idt < 0 { a(-1) } else { id(idt) }, id(key), v]);
    let own = |kind: i64, hd: i64| l(vec![a(11), a(kind), a(hd), a(0)]);
    let mut ops = vec![
        l(vec![a(10), a(0)]),
        l(vec![a(0), a(0), a(8)]),
        own(0, 0), // resource r0 in the sub-store
        l(vec![a(3), a(0), txt(0, 1, 4), l(vec![data(-1, 0, int(1))])]),
        own(2, 0),
        own(1, 0), // annotation a0 and dataset s0 in the sub-store
        l(vec![a(3), a(-1), txt(0, 2, 6), l(vec![data(3, 1, int(2))])]),
        own(2, 1), // an annotation without id in the sub-store
        l(vec![a(0), a(1), a(5)]), // resource r1 of the root
        l(vec![a(3), a(-1), txt(1, 0, 2), l(vec![data(-1, 0, int(1))])]), // a root annotation without id using the sub-store's data
        l(vec![a(3), a(4), l(vec![a(1), h(1)]), l(vec![])]), // a root annotation on the sub-store's id-less annotation
        l(vec![a(9)]),
    ];
    match v {
        0 => ops.push(l(vec![a(3), a(5), txt(1, 1, 3), l(vec![data(-1, 0, int(7))])])), // root addition, new data in the sub-store's set
        1 => {
            ops.push(l(vec![a(3), a(6), txt(0, 0, 8), l(vec![data(-1, 1, int(8))])])); // late addition to the sub-store, public id
            ops.push(own(2, 4));
        }
        2 => {
            ops.push(l(vec![a(3), a(-1), txt(0, 0, 8), l(vec![])])); // late addition to the sub-store, no id
            ops.push(own(2, 4));
        }
        3 => ops.push(l(vec![a(4), h(1)])), // removal inside the sub-store (cascades to the root annotation on it)
        4 => ops.push(l(vec![a(5), id(0), id(3), a(1)])), // remove_data in the sub-store's set
        5 => {
            ops.push(l(vec![a(0), a(2), a(3)])); // a new resource for the sub-store (late)
            ops.push(own(0, 2));
        }
        _ => return sub_family_order(v, rmode, smode),
    }
    l(vec![a(0), l(ops), l(vec![a(rmode), a(smode)])])
}

/// annotations handed to the sub-store in another order than they were made (the arrangement stays natural:
/// all of them are the sub-store's before the root has any): 6 with public ids, a2 before a1 before a0;
/// 7 without ids; 8 an older annotation moved in after newer ones, mixed ids; 9 moved from one sub-store to another
fn sub_family_order(v: usize, rmode: i64, smode: i64) -> Sx {
    let id = |t: i64| l(vec![a(0), a(t)]);
    let h = |x: i64| l(vec![a(1), a(x)]);
    let cb = |n: i64| l(vec![a(0), a(n)]);
    let txt = |b: i64, e: i64| l(vec![a(0), id(0), cb(b), cb(e)]);
    let own = |kind: i64, hd: i64, k: i64| l(vec![a(11), a(kind), a(hd), a(k)]);
    let data = |key: i64, z: i64| l(vec![id(0), a(-1), id(key), l(vec![a(2), a(z)])]);
    let with_ids = v == 6 || v == 9;
    let aid = |t: i64| if with_ids || (v == 8 && t == 1) { a(t) } else { a(-1) };
    let mut ops = vec![l(vec![a(10), a(0)])];
    if v == 9 {
        ops.push(l(vec![a(10), a(1)]));
    }
    ops.push(l(vec![a(0), a(0), a(8)]));
    ops.push(own(0, 0, 0));
    ops.push(l(vec![a(3), aid(0), txt(1, 4), l(vec![data(0, 1)])]));
    ops.push(own(1, 0, 0));
    ops.push(l(vec![a(3), aid(1), txt(2, 6), l(vec![data(1, 2)])]));
    ops.push(l(vec![a(3), aid(2), l(vec![a(1), h(0)]), l(vec![])])); // on annotation 0
    match v {
        6 | 7 => {
            ops.push(own(2, 2, 0));
            ops.push(own(2, 1, 0));
            ops.push(own(2, 0, 0));
        }
        8 => {
            ops.push(own(2, 1, 0));
            ops.push(own(2, 2, 0));
            ops.push(l(vec![a(9)])); // saved while annotation 0 still is the root's
            ops.push(own(2, 0, 0));
        }
        _ => {
            // first all in sub-store 1 (in order), then moved to sub-store 0 in another order
            ops.push(own(2, 0, 1));
            ops.push(own(2, 1, 1));
            ops.push(own(2, 2, 1));
            ops.push(own(2, 1, 0));
            ops.push(own(2, 2, 0));
            ops.push(own(2, 0, 0));
        }
    }
    ops.push(l(vec![a(0), a(1), a(5)])); // the root's resource and annotations
    ops.push(l(vec![a(3), a(4), l(vec![a(0), id(1), cb(0), cb(2)]), l(vec![data(0, 1)])]));
    ops.push(l(vec![a(3), a(-1), l(vec![a(1), h(1)]), l(vec![])]));
    l(vec![a(0), l(ops), l(vec![a(rmode), a(smode)])])
}

/// a history over a store with one or two sub-stores
fn gen_sub_history(rng: &mut Rng, late: bool) -> Sx {
    let cfg = storegen::GenCfg { max_ops: 8, removals: 2, invalid: 0, values: true };
    let mut store = storegen::new_store();
    let mut shadow = storegen::Shadow::default();
    let mut ops: Vec<Sx> = Vec::new();
    let nsubs = 1 + rng.below(2);
    for k in 0..nsubs {
        ops.push(l(vec![a(10), a(k as i64)]));
    }
    // phases: sub-store 0, (sub-store 1,) root, and possibly a late addition to sub-store 0
    let mut phases: Vec<Option<usize>> = (0..nsubs).map(Some).collect();
    phases.push(None);
    if late {
        phases.push(Some(0));
    }
    let shuffle_handover = rng.chance(1, 2);
    let mut pending: Vec<Sx> = Vec::new();
    for (pi, owner) in phases.iter().enumerate() {
        let n = if late && pi + 1 == phases.len() { 1 + rng.below(2) } else { 1 + rng.below(cfg.max_ops) };
        for _ in 0..n {
            let (nr, ns, na) = (store.resources_len(), store.datasets_len(), store.annotations_len());
            let op = shadow.gen_op(rng, &cfg);
            let _ = storegen::apply(&mut store, &op);
            ops.push(op);
            if guard(|| shadow.sync(&store)).is_none() {
                break;
            }
            if let Some(k) = owner {
                let mut hand: Vec<Sx> = Vec::new();
                for h in nr..store.resources_len() {
                    hand.push(l(vec![a(11), a(0), a(h as i64), a(*k as i64)]));
                }
                for h in ns..store.datasets_len() {
                    hand.push(l(vec![a(11), a(1), a(h as i64), a(*k as i64)]));
                }
                for h in na..store.annotations_len() {
                    hand.push(l(vec![a(11), a(2), a(h as i64), a(*k as i64)]));
                }
                if shuffle_handover {
                    pending.extend(hand);
                } else {
                    ops.extend(hand);
                }
            }
            if rng.chance(1, 8) {
                ops.push(l(vec![a(9)]));
            }
        }
        // items kept back are handed to the sub-store now, in another order than they were made
        while !pending.is_empty() {
            let i = rng.below(pending.len());
            ops.push(pending.remove(i));
        }
        if rng.chance(1, 3) {
            ops.push(l(vec![a(9)]));
        }
    }
    let modes = if rng.chance(1, 2) { l(vec![a(0), a(0)]) } else { l(vec![a(rng.below(4) as i64), a(rng.below(3) as i64)]) };
    l(vec![a(0), l(ops), modes])
}

fn prefix_ops() -> Vec<Sx> {
    let id = |t: i64| l(vec![a(0), a(t)]);
    let cb = |n: i64| l(vec![a(0), a(n)]);
    vec![
        l(vec![a(0), a(0), a(7)]),
        l(vec![a(3), a(0), l(vec![a(0), id(0), cb(1), cb(5)]), l(vec![l(vec![id(0), a(-1), id(0), l(vec![a(2), a(1)])])])]),
        l(vec![a(3), a(-1), l(vec![a(0), id(0), cb(2), l(vec![a(1), a(-1)])]), l(vec![l(vec![id(0), id(1), id(1), l(vec![a(4), a(120)])])])]),
    ]
}
fn alphabet() -> Vec<Sx> {
    let id = |t: i64| l(vec![a(0), a(t)]);
    let h = |x: i64| l(vec![a(1), a(x)]);
    let cb = |n: i64| l(vec![a(0), a(n)]);
    let ce = |z: i64| l(vec![a(1), a(z)]);
    let nodata = || l(vec![]);
    let d = |idt: i64, key: i64, v: i64| l(vec![id(0), if idt < 0 { a(-1) } else { id(idt) }, id(key), l(vec![a(2), a(v)])]);
    vec![
        l(vec![a(0), a(1), a(4)]),                                                   // a second resource
        l(vec![a(1), a(1)]),                                                          // an empty dataset
        l(vec![a(2), d(-1, 0, 2)]),                                                   // insert_data, existing key
        l(vec![a(3), a(-1), l(vec![a(0), id(0), ce(-3), ce(0)]), l(vec![d(-1, 0, 1)])]), // text, end-aligned, existing data
        l(vec![a(3), a(2), l(vec![a(0), h(0), cb(0), ce(-2)]), nodata()]),           // text by handle, mixed alignment
        l(vec![a(3), a(-1), l(vec![a(1), h(1)]), nodata()]),                          // on the id-less annotation
        l(vec![a(3), a(3), l(vec![a(2), id(0), cb(1), ce(0)]), nodata()]),            // relative to a0, begin/end
        l(vec![a(3), a(-1), l(vec![a(2), h(1), ce(-2), cb(3)]), l(vec![d(4, 2, 3)])]), // relative to the id-less one, end/begin, new key
        l(vec![a(3), a(-1), l(vec![a(3), id(0)]), nodata()]),                         // resource selector
        l(vec![a(3), a(5), l(vec![a(4), id(0)]), nodata()]),                          // dataset selector
        l(vec![a(3), a(-1), l(vec![a(5), id(0), id(0)]), nodata()]),                  // key selector
        l(vec![a(3), a(-1), l(vec![a(6), id(0), h(0)]), nodata()]),                   // data selector, id-less data
        l(vec![a(3), a(-1), l(vec![a(7), a(1), l(vec![a(0), id(0), cb(4), cb(5)]), l(vec![a(0), id(0), cb(0), cb(1)]), l(vec![a(0), id(0), cb(1), cb(2)])]), nodata()]), // multi, compressible
        l(vec![a(3), a(6), l(vec![a(7), a(3), l(vec![a(1), h(1)]), l(vec![a(1), id(0)]), l(vec![a(6), id(0), id(1)])]), nodata()]), // directional
        l(vec![a(4), id(0)]),                                                         // remove a0 (cascades)
        l(vec![a(4), h(1)]),
        l(vec![a(5), id(0), h(0), a(1)]),                                             // remove_data strict
        l(vec![a(5), id(0), id(1), a(0)]),                                            // remove_data, not strict
        l(vec![a(6), id(0), id(0), a(1)]),                                            // remove_key
        l(vec![a(7), id(0)]),                                                         // remove_resource
        l(vec![a(8), id(0)]),                                                         // remove_dataset
        l(vec![a(9)]),                                                                // save
    ]
}

/// variant 0: name the files, export, save; 1: save, modify (new data for an existing key, new annotation),
/// export, save; 2: name the files, export twice (both members), modify, save
fn export_family(kind: i64, wher: i64, variant: usize, rmode: i64, smode: i64) -> Sx {
    let id = |t: i64| l(vec![a(0), a(t)]);
    let cb = |n: i64| l(vec![a(0), a(n)]);
    let int = |z: i64| l(vec![a(2), a(z)]);
    let txt = |b: i64, e: i64| l(vec![a(0), id(0), cb(b), cb(e)]);
    let data = |key: i64, v: Sx| l(vec![id(0), a(-1), id(key), v]);
    let export = |k: i64, h: i64| l(vec![a(12), a(k), a(h), a(wher)]);
    let mut ops = vec![
        l(vec![a(0), a(0), a(8)]),
        l(vec![a(0), a(1), a(5)]),
        l(vec![a(3), a(0), txt(1, 4), l(vec![data(0, int(1))])]),
        l(vec![a(3), a(-1), l(vec![a(0), id(1), cb(0), l(vec![a(1), a(-1)])]), l(vec![data(1, int(2))])]),
    ];
    let modify = l(vec![a(3), a(2), txt(0, 3), l(vec![data(0, int(7))])]);
    match variant {
        0 => {
            ops.push(l(vec![a(13)]));
            ops.push(export(kind, if kind == 2 { 0 } else { (wher + kind) % 2 }));
        }
        1 => {
            ops.push(l(vec![a(9)]));
            ops.push(modify);
            ops.push(export(kind, 0));
        }
        _ => {
            ops.push(l(vec![a(13)]));
            ops.push(export(0, 0));
            ops.push(export(0, 1));
            ops.push(export(2, 0));
            ops.push(export(kind, 1));
            ops.push(modify);
        }
    }
    l(vec![a(0), l(ops), l(vec![a(rmode), a(smode)])])
}

const N_MODS: usize = 14;
/// a store with a dataset and a resource (stand-off or not), saved, modified in one way, (saved and
/// modified once more,) and saved again by the final write
fn save_modify_save(m: usize, rmode: i64, smode: i64, twice: bool) -> Sx {
    let id = |t: i64| l(vec![a(0), a(t)]);
    let h = |x: i64| l(vec![a(1), a(x)]);
    let cb = |n: i64| l(vec![a(0), a(n)]);
    let int = |z: i64| l(vec![a(2), a(z)]);
    let txt = |b: i64, e: i64| l(vec![a(0), id(0), cb(b), cb(e)]);
    let data = |idt: i64, key: i64, v: Sx| l(vec![id(0), if idt < 0 { a(-1) } else { id(idt) }, id(key), v]);
    let mut ops = vec![
        l(vec![a(0), a(0), a(8)]),                                               // resource r0, 8 characters
        l(vec![a(0), a(1), a(5)]),                                               // resource r1
        l(vec![a(3), a(0), txt(1, 4), l(vec![data(-1, 0, int(1)), data(3, 1, int(2))])]), // a0 with data (s0: k0=1, d3: k1=2)
        l(vec![a(3), a(-1), txt(2, 6), l(vec![data(-1, 0, int(5))])]),          // an annotation without id
        l(vec![a(9)]),
    ];
    let modification = |m: usize| -> Sx {
        match m {
            0 => l(vec![a(3), a(2), txt(0, 3), l(vec![data(-1, 0, int(7))])]),          // new data (no id) for an existing key, through annotate
            1 => l(vec![a(3), a(3), txt(4, 8), l(vec![data(5, 1, int(8))])]),           // new data with id for an existing key
            2 => l(vec![a(2), data(-1, 0, l(vec![a(4), a(120)]))]),                    // insert_data, existing key
            3 => l(vec![a(2), data(-1, 2, int(9))]),                                    // insert_data, new key
            4 => l(vec![a(3), a(4), txt(0, 8), l(vec![])]),                             // an annotation without data on the (stand-off) resource
            5 => l(vec![a(5), id(0), h(0), a(1)]),                                      // remove_data strict
            6 => l(vec![a(5), id(0), id(3), a(0)]),                                     // remove_data not strict
            7 => l(vec![a(6), id(0), id(1), a(1)]),                                     // remove_key
            8 => l(vec![a(4), h(1)]),                                                   // remove_annotation
            9 => l(vec![a(3), a(5), l(vec![a(3), id(1)]), l(vec![l(vec![id(1), a(-1), id(0), int(1)])])]), // a new dataset s1 through annotate
            10 => l(vec![a(0), a(2), a(4)]),                                            // a new resource
            11 => l(vec![a(7), id(1)]),                                                 // remove_resource (no annotations on it)
            12 => l(vec![a(8), id(0)]),                                                 // remove_dataset
            _ => l(vec![a(3), a(6), l(vec![a(6), id(0), h(0)]), l(vec![data(-1, 1, int(2))])]), // existing data (same key and value) + a data selector
        }
    };
    ops.push(modification(m));
    if twice {
        ops.push(l(vec![a(9)]));
        ops.push(modification((m + 3) % N_MODS));
    }
    l(vec![a(0), l(ops), l(vec![a(rmode), a(smode)])])
}

/// one member of the exhaustive family
fn family(kind: usize, m: i64, ids: bool, gap: bool, so: usize) -> Sx {
    let t = |s: &str| text(s);
    let rfile = match so {
        1 => t("r.txt"),
        2 => t("r.json"),
        _ => a(-1),
    };
    let sfile = if so > 0 { t("s.annotationset.stam.json") } else { a(-1) };
    let ress = vec![l(vec![t("res"), t("héllo wörld 😀!"), rfile]), l(vec![t("other"), t("abc"), a(-1)])];
    let g = gap as i64;
    // dataset 0: keys k0 (hole?) k1; data (hole?) d
    let mut keys = vec![t("k0")];
    if gap {
        keys.push(a(-1));
    }
    keys.push(t("k1"));
    let mut data = Vec::new();
    if gap {
        data.push(a(-1));
    }
    data.push(l(vec![if ids { t("d0") } else { a(-1) }, a(0), l(vec![a(4), a(118)])]));
    data.push(l(vec![a(-1), a(1 + g), l(vec![a(2), a(7)])]));
    let sets = vec![l(vec![t("set"), sfile, l(keys), l(data)])];
    let aid = |s: &str| if ids { t(s) } else { a(-1) };
    // annotation 0 (after an optional hole): a text selection 2..9 on resource 0; annotation 1: relative to it
    let mut anns = Vec::new();
    if gap {
        anns.push(a(-1));
    }
    anns.push(l(vec![aid("a0"), l(vec![l(vec![a(0), a(g)])]), a(0), l(vec![l(vec![a(0), a(0), a(2), a(9), a(m)])])]));
    anns.push(l(vec![a(-1), l(vec![]), a(0), l(vec![l(vec![a(2), a(g), a(0), a(3), a(7), a(m)])])]));
    let p0 = g; // handle of annotation 0
    let leaf = match kind {
        0 => l(vec![a(0), a(1), a(0), a(3), a(m)]),
        1 => l(vec![a(1), a(p0 + 1)]),
        2 => l(vec![a(2), a(p0 + 1), a(0), a(4), a(6), a(m)]),
        3 => l(vec![a(3), a(1)]),
        4 => l(vec![a(4), a(0)]),
        5 => l(vec![a(5), a(0), a(1 + g)]),
        _ => l(vec![a(6), a(0), a(g)]),
    };
    if kind < 6 {
        anns.push(l(vec![aid("a2"), l(vec![l(vec![a(0), a(1 + g)])]), a(0), l(vec![leaf])]));
    } else if kind == 6 {
        anns.push(l(vec![aid("a2"), l(vec![]), a(0), l(vec![l(vec![a(6), a(0), a(g)])])]));
    } else {
        // complex selectors 7 Multi, 8 Composite (and Directional through the alignment parameter)
        let k = if kind == 7 { 1 } else if m % 2 == 0 { 2 } else { 3 };
        let leaves = vec![
            l(vec![a(0), a(0), a(5), a(9), a(m)]),
            l(vec![a(0), a(0), a(0), a(2), a(0)]),
            l(vec![a(0), a(0), a(2), a(4), a(0)]),
            l(vec![a(1), a(p0)]),
            l(vec![a(1), a(p0 + 1)]),
            l(vec![a(5), a(0), a(0)]),
            l(vec![a(3), a(1)]),
        ];
        anns.push(l(vec![aid("a2"), l(vec![]), a(k), l(leaves)]));
    }
    l(vec![a(1), l(vec![if ids { t("store") } else { a(-1) }, l(ress), l(sets), l(anns)])])
}

pub const RULE: &str = "(1) an exhaustive family of 432 literal stores: 9 selector kinds (text, annotation, annotation with offset, resource, dataset, key, data, multi, composite/directional) x 4 alignments x with/without public identifiers x with/without removed slots (annotation, key, data) x inline / stand-off txt / stand-off json; (2) seeded random literal stores: 1-3 resources with texts over an alphabet with quote, backslash, control characters, DEL, non-BMP and U+FFFF/U+10FFFF/U+2028, identifiers over the same alphabet, 0-2 datasets with keys, data with and without identifiers, values of all seven types (integer extremes, floats on the 1/1000 grid, nested lists to depth 2, datetimes with offsets and nanoseconds), up to 6 annotations over all selector kinds and alignments incl. offsets relative to annotations and complex selectors, removed slots of every item type, stand-off resources (txt, json, identifier = file name) and datasets; (3) save/modify/save families (14 kinds of modification x resource inline/txt/json x dataset inline/stand-off x once/twice) and an exhaustive small scope: a fixed prefix (resource, annotation with id and data, id-less annotation in mixed alignment) followed by EVERY sequence of 2 (thorough: 3) operations from an alphabet of 22 (all selector kinds, alignments, relative offsets, complex selectors, removals of every kind, save); (3a) exports of copies between modification and save (to_txt_file / to_json_file of a resource, to_json_file of a dataset or of the store document, to backup/ under the member's own file name or another name; 192 requests, and sprinkled over the random histories); (4) histories with one or two sub-stores (family of 60 + random, natural arrangement and late additions; annotations handed to a sub-store in another order than they were made, with and without public ids, moved between sub-stores), (5) the final stores of seeded random histories of the shared store generator (all operations incl. removals with cascades, ids and handles, invalid references, range compression) inline and with stand-off members. Each store is written as STAM JSON pretty and compact, both outputs are parsed into trees and compared with the model's documents, the stand-off files likewise; the store is loaded again from the string and from a file, observed again (canonical observation by names, slot layout, every reverse lookup and id resolution by name), written again (bytes equal), saved with save(), and written with to_file() into ANOTHER directory and loaded from there (the loaded store to an absolute and a relative target; the store of the request built in memory once more with an absolute working directory or - every fourth request - none and a relative target). One evaluation = one compared sub-case (8 per store).";
pub const EXHAUSTIVE: bool = false;
