//! S-expression values exchanged with the extracted Coq model (see coq/Base/Sx.v).
use std::fmt;

#[derive(Clone, Debug, PartialEq, Eq, Hash)]
pub enum Sx {
    A(i64),
    L(Vec<Sx>),
}

impl fmt::Display for Sx {
    fn fmt(&self, f: &mut fmt::Formatter<'_>) -> fmt::Result {
        match self {
            Sx::A(z) => write!(f, "{}", z),
            Sx::L(l) => {
                f.write_str("(")?;
                for (i, x) in l.iter().enumerate() {
                    if i > 0 {
                        f.write_str(" ")?;
                    }
                    x.fmt(f)?;
                }
                f.write_str(")")
            }
        }
    }
}

pub fn a<T: TryInto<i64>>(z: T) -> Sx {
    Sx::A(z.try_into().ok().expect("atom out of range"))
}
pub fn b(x: bool) -> Sx {
    Sx::A(if x { 1 } else { 0 })
}
pub fn l(v: Vec<Sx>) -> Sx {
    Sx::L(v)
}
pub fn onat(o: Option<usize>) -> Sx {
    match o {
        Some(n) => a(n as i64),
        None => Sx::A(-1),
    }
}
pub fn nats<I: IntoIterator<Item = usize>>(it: I) -> Sx {
    Sx::L(it.into_iter().map(|n| a(n as i64)).collect())
}
/// a string as the list of its scalar values
pub fn text(s: &str) -> Sx {
    Sx::L(s.chars().map(|c| a(c as u32 as i64)).collect())
}

pub fn parse(s: &str) -> Option<Sx> {
    let bytes = s.as_bytes();
    let mut pos = 0usize;
    let r = parse_at(bytes, &mut pos)?;
    Some(r)
}
fn skip_ws(b: &[u8], pos: &mut usize) {
    while *pos < b.len() && (b[*pos] == b' ' || b[*pos] == b'\n' || b[*pos] == b'\t') {
        *pos += 1;
    }
}
fn parse_at(b: &[u8], pos: &mut usize) -> Option<Sx> {
    skip_ws(b, pos);
    if *pos >= b.len() {
        return None;
    }
    if b[*pos] == b'(' {
        *pos += 1;
        let mut v = Vec::new();
        loop {
            skip_ws(b, pos);
            if *pos >= b.len() {
                return None;
            }
            if b[*pos] == b')' {
                *pos += 1;
                return Some(Sx::L(v));
            }
            v.push(parse_at(b, pos)?);
        }
    } else {
        let start = *pos;
        if b[*pos] == b'-' {
            *pos += 1;
        }
        while *pos < b.len() && b[*pos].is_ascii_digit() {
            *pos += 1;
        }
        std::str::from_utf8(&b[start..*pos]).ok()?.parse::<i64>().ok().map(Sx::A)
    }
}

impl Sx {
    pub fn int(&self) -> i64 {
        match self {
            Sx::A(z) => *z,
            _ => 0,
        }
    }
    pub fn list(&self) -> &[Sx] {
        match self {
            Sx::L(l) => l,
            _ => &[],
        }
    }
    pub fn nth(&self, i: usize) -> &Sx {
        static ZERO: Sx = Sx::A(0);
        self.list().get(i).unwrap_or(&ZERO)
    }
    pub fn string(&self) -> String {
        self.list().iter().filter_map(|x| char::from_u32(x.int() as u32)).collect()
    }
}
