//! C19: loading untrusted serialisations never panics, aborts or hangs.
//!
//! Everything that loads a document runs in a child process (this same binary, started as
//! `<exe> gen child:<batch file> 0 /dev/null /dev/null`) under `ulimit -v` (2 GiB) with stdin
//! closed: an allocation failure or a stack overflow aborts the process and cannot be caught.
//! The child writes one line when the load of a case is over (`L idx safety result rss cpu`)
//! and one when the lookups on the loaded store are over (`P idx 0|1`); the parent turns a
//! dead child into `abort` and a silent one into `hang` for the case that was running.
//!
//! safety: 0 fine, 1 panic, 2 abort, 3 hang, 4 memory over budget, 5 cpu time over budget,
//! 6 a lookup on the loaded store panicked or aborted.
use crate::out::{guard, Out};
use crate::rng::Rng;
use crate::sx::{a, l, text as text_sx, Sx};
use stam::*;
use std::io::Write;
use std::process::{Command, Stdio};

#[path = "c19_util.rs"]
mod util;
use util::*;

pub struct Ctx {}

const MEM_LIMIT_KB: u64 = 2 * 1024 * 1024; // ulimit -v
const MEM_BASE_KB: u64 = 48 * 1024; // budget: 48 MiB + 256 bytes per input byte
const CPU_BASE_MS: u64 = 1500; // budget: 1.5 s + 4 us per input byte
const HANG_SECS: u64 = 60; // no progress of the child for this long = hang

fn mem_budget_kb(input_bytes: usize) -> u64 {
    MEM_BASE_KB + (input_bytes as u64) / 4
}
fn cpu_budget_ms(input_bytes: usize) -> u64 {
    CPU_BASE_MS + (input_bytes as u64) / 250
}

/// Config variant of the case being prepared / loaded (request kind 15)
static CUR_CFG: std::sync::atomic::AtomicI64 = std::sync::atomic::AtomicI64::new(0);

pub const NCFG: i64 = 9;

fn apply_cfg(c: Config, k: i64) -> Config {
    let indices_off = |c: Config| {
        c.with_textrelationmap(false)
            .with_resource_annotation_map(false)
            .with_dataset_annotation_map(false)
            .with_key_annotation_metamap(false)
            .with_data_annotation_metamap(false)
            .with_annotation_annotation_map(false)
    };
    match k {
        1 => c.with_milestone_interval(0),
        2 => c.with_milestone_interval(1),
        3 => c.with_milestone_interval(2),
        4 => c.with_shrink_to_fit(false),
        5 => c.with_generate_ids(true),
        6 => indices_off(c),
        7 => c.with_use_include(false),
        8 => indices_off(c.with_milestone_interval(0).with_shrink_to_fit(false).with_generate_ids(true).with_use_include(false)),
        _ => c,
    }
}

/// the configuration documents are loaded with (the default one unless the request says otherwise)
fn cfgd() -> Config {
    apply_cfg(Config::default(), CUR_CFG.load(std::sync::atomic::Ordering::SeqCst))
}

/// the request itself, or the one wrapped in (15 cfg request)
fn inner(req: &Sx) -> &Sx {
    if req.nth(0).int() == 15 {
        req.nth(2)
    } else {
        req
    }
}

fn workdir() -> String {
    let base = std::env::var("VERIF_WORK").unwrap_or_else(|_| "/verif/.cache/work".to_string());
    format!("{}/c19", base)
}

fn panic_sx() -> Sx {
    l(vec![a(-1)])
}
fn big(n: u64) -> Vec<Sx> {
    vec![a((n >> 32) as i64), a((n & 0xffff_ffff) as i64)]
}
fn ostring(x: &Sx) -> Option<String> {
    match x {
        Sx::A(_) => None,
        Sx::L(_) => Some(x.string()),
    }
}
pub fn sid(s: &str) -> Sx {
    text_sx(s)
}

// ---------------------------------------------------------------------------------------
// in-process: the string parsers

fn small_store() -> AnnotationStore {
    let mut store = AnnotationStore::default()
        .with_id("c19")
        .with_resource(TextResourceBuilder::new().with_id("r").with_text("abcdefghij"))
        .unwrap()
        .with_resource(TextResourceBuilder::new().with_id("r2").with_text("second"))
        .unwrap();
    store
        .annotate(
            AnnotationBuilder::new()
                .with_id("A0")
                .with_target(SelectorBuilder::textselector("r", Offset::simple(0, 5)))
                .with_data_with_id("s", "k", "v", "D0"),
        )
        .unwrap();
    store
        .annotate(
            AnnotationBuilder::new()
                .with_id("A1")
                .with_target(SelectorBuilder::resourceselector("r2"))
                .with_data_with_id("s", "k2", 5, "D1"),
        )
        .unwrap();
    store
}

fn exec_string(which: i64, s: &str, store: &AnnotationStore) -> Sx {
    match which {
        0 => guard(|| match Cursor::try_from(s) {
            Ok(Cursor::BeginAligned(n)) => l([vec![a(1), a(0)], big(n as u64)].concat()),
            Ok(Cursor::EndAligned(z)) => l([vec![a(1), a(1)], big((z as i128).unsigned_abs() as u64)].concat()),
            Err(_) => l(vec![a(0)]),
        })
        .unwrap_or_else(panic_sx),
        1 => guard(|| match Type::try_from(s) {
            Ok(t) => {
                let idx = match t {
                    Type::AnnotationStore => 0,
                    Type::Annotation => 1,
                    Type::AnnotationDataSet => 2,
                    Type::AnnotationData => 3,
                    Type::DataKey => 4,
                    Type::DataValue => 5,
                    Type::TextResource => 6,
                    Type::TextSelection => 7,
                    Type::TextSelectionSet => 8,
                    Type::Config => 9,
                    Type::AnnotationSubStore => 10,
                };
                l(vec![a(1), a(idx)])
            }
            Err(_) => l(vec![a(0)]),
        })
        .unwrap_or_else(panic_sx),
        2 => guard(|| match SelectorKind::try_from(s) {
            Ok(k) => {
                let idx = match k {
                    SelectorKind::ResourceSelector => 0,
                    SelectorKind::AnnotationSelector => 1,
                    SelectorKind::TextSelector => 2,
                    SelectorKind::DataSetSelector => 3,
                    SelectorKind::DataKeySelector => 4,
                    SelectorKind::AnnotationDataSelector => 5,
                    SelectorKind::MultiSelector => 6,
                    SelectorKind::CompositeSelector => 7,
                    SelectorKind::DirectionalSelector => 8,
                    _ => 99,
                };
                l(vec![a(1), a(idx)])
            }
            Err(_) => l(vec![a(0)]),
        })
        .unwrap_or_else(panic_sx),
        3 => guard(|| match DataFormat::try_from(s) {
            Ok(DataFormat::Json { compact }) => l(vec![a(1), a(0), a(compact as i64)]),
            Ok(DataFormat::CBOR) => l(vec![a(1), a(1), a(0)]),
            Ok(DataFormat::Csv) => l(vec![a(1), a(2), a(0)]),
            Err(_) => l(vec![a(0)]),
        })
        .unwrap_or_else(panic_sx),
        _ => guard(|| {
            // every place that hands a string to resolve_temp_id
            let _ = store.resource(s).is_some();
            let _ = store.annotation(s).is_some();
            let _ = store.dataset(s).is_some();
            if let Some(ds) = store.dataset("s") {
                let _ = ds.key(s).is_some();
                let _ = ds.annotationdata(s).is_some();
            }
            l(vec![a(1)])
        })
        .unwrap_or_else(panic_sx),
    }
}

// ---------------------------------------------------------------------------------------
// lookups on a loaded store (every annotation's target and data resolve through the API)

fn probe(st: &AnnotationStore) -> usize {
    let mut n = 0;
    for an in st.annotations() {
        n += an.textselections().count();
        n += an.data().count();
        n += an.resources().count();
        n += an.datasets().count();
        n += an.annotations_in_targets(AnnotationDepth::Max).count();
        n += an.annotations().count();
        n += an.text().count();
        let _ = an.as_ref().to_json_string(st);
    }
    for r in st.resources() {
        n += r.textselections().count();
        n += r.annotations().count();
        n += r.annotations_as_metadata().count();
    }
    for d in st.datasets() {
        for k in d.keys() {
            n += k.data().count();
            n += k.annotations().count();
        }
        for x in d.data() {
            n += x.annotations().count();
            let _ = x.value();
            n += x.key().as_str().len();
        }
        n += d.annotations().count();
    }
    let _ = st.to_json_string(&Config::default());
    n
}

// ---------------------------------------------------------------------------------------
// documents built from abstract requests

const PRELUDE: &str = r#"{"@type":"AnnotationStore","@id":"c19","resources":[{"@type":"TextResource","@id":"r","text":"abcdefghij"}],"annotationsets":[{"@type":"AnnotationDataSet","@id":"s","keys":[{"@type":"DataKey","@id":"k"}],"data":[{"@type":"AnnotationData","@id":"d0","key":"k","value":{"@type":"String","value":"v"}}]}]"#;

fn subselector(kind: i64, i: usize) -> String {
    match kind {
        0 => r#"{"@type":"ResourceSelector","resource":"r"}"#.to_string(),
        1 => r#"{"@type":"AnnotationSelector","annotation":"base"}"#.to_string(),
        2 => format!(
            r#"{{"@type":"TextSelector","resource":"r","offset":{{"@type":"Offset","begin":{{"@type":"BeginAlignedCursor","value":{}}},"end":{{"@type":"BeginAlignedCursor","value":{}}}}}}}"#,
            i % 9,
            i % 9 + 1
        ),
        3 => r#"{"@type":"DataSetSelector","annotationset":"s"}"#.to_string(),
        4 => r#"{"@type":"DataKeySelector","annotationset":"s","key":"k"}"#.to_string(),
        _ => r#"{"@type":"AnnotationDataSelector","annotationset":"s","data":"d0"}"#.to_string(),
    }
}

/// (1 strip base arrays): a store document with one `annotations` array per entry of arrays
fn doc_annotations(req: &Sx) -> String {
    let base = req.nth(2).int() != 0;
    let mut doc = String::from(PRELUDE);
    if base {
        doc.push_str(r#","annotations":[{"@type":"Annotation","@id":"base","target":{"@type":"ResourceSelector","resource":"r"},"data":[]}]"#);
    }
    for arr in req.nth(3).list() {
        doc.push_str(r#","annotations":["#);
        for (i, e) in arr.list().iter().enumerate() {
            if i > 0 {
                doc.push(',');
            }
            doc.push_str(r#"{"@type":"Annotation""#);
            if let Some(id) = ostring(e.nth(0)) {
                doc.push_str(r#","@id":"#);
                doc.push_str(&jstr(&id));
            }
            let build = e.nth(1).int() != 0;
            let kinds = e.nth(2).list();
            doc.push_str(r#","target":"#);
            if !build {
                doc.push_str(r#"{"@type":"ResourceSelector","resource":"nope"}"#);
            } else if kinds.is_empty() {
                doc.push_str(r#"{"@type":"ResourceSelector","resource":"r"}"#);
            } else {
                doc.push_str(r#"{"@type":"CompositeSelector","selectors":["#);
                for (j, k) in kinds.iter().enumerate() {
                    if j > 0 {
                        doc.push(',');
                    }
                    doc.push_str(&subselector(k.int(), j));
                }
                doc.push_str("]}");
            }
            doc.push_str(r#","data":[]}"#);
        }
        doc.push(']');
    }
    doc.push('}');
    doc
}

/// n annotations, each with one inline data item (with or without "@id", same key or one key each)
fn doc_scale(n: usize, hasid: bool, samekey: bool) -> String {
    let mut doc = String::from(r#"{"@type":"AnnotationStore","@id":"c19","resources":[{"@type":"TextResource","@id":"r","text":"abcdefghij"}],"annotations":["#);
    for i in 0..n {
        if i > 0 {
            doc.push(',');
        }
        let id = if hasid { format!(r#""@id":"d{}","#, i) } else { String::new() };
        let key = if samekey { "k".to_string() } else { format!("k{}", i) };
        doc.push_str(&format!(
            r#"{{"@type":"Annotation","@id":"a{}","target":{{"@type":"ResourceSelector","resource":"r"}},"data":[{{"@type":"AnnotationData",{}"set":"s","key":"{}","value":{{"@type":"Int","value":{}}}}}]}}"#,
            i, id, key, i
        ));
    }
    doc.push_str("]}");
    doc
}

/// (2 strip arrays): one data set with one `data` array per entry of arrays
fn doc_data(req: &Sx) -> String {
    let mut doc = String::from(r#"{"@type":"AnnotationStore","@id":"c19","annotationsets":[{"@type":"AnnotationDataSet","@id":"s","keys":[{"@type":"DataKey","@id":"k"}]"#);
    let mut n = 0;
    for arr in req.nth(2).list() {
        doc.push_str(r#","data":["#);
        for (i, e) in arr.list().iter().enumerate() {
            if i > 0 {
                doc.push(',');
            }
            doc.push_str(r#"{"@type":"AnnotationData""#);
            if let Some(id) = ostring(e.nth(0)) {
                doc.push_str(r#","@id":"#);
                doc.push_str(&jstr(&id));
            }
            if e.nth(1).int() != 0 {
                doc.push_str(r#","key":"k""#);
            }
            doc.push_str(&format!(r#","value":{{"@type":"Int","value":{}}}}}"#, n));
            n += 1;
        }
        doc.push(']');
    }
    doc.push_str("}]}");
    doc
}

fn write_file(dir: &str, name: &str, content: &[u8]) {
    std::fs::write(format!("{}/{}", dir, name), content).expect("cannot write case file");
}

/// the fixed part of a CSV store: manifest, one data set, two resources
fn csv_fixture(dir: &str) {
    write_file(dir, "c.store.stam.csv", b"Type,Id,Filename\nAnnotationStore,c19,c.annotations.stam.csv\nAnnotationDataSet,s,s.annotationset.stam.csv\nTextResource,r,r.txt\nTextResource,r2,r2.txt\n");
    write_file(dir, "s.annotationset.stam.csv", b"Id,Key,Value\n,k,\n,k2,\nD0,k,v\nD1,k2,w\n");
    write_file(dir, "r.txt", b"abcdefghij");
    write_file(dir, "r2.txt", b"second");
}

const CSV_HEADER: &str = "Id,AnnotationData,AnnotationDataSet,SelectorType,TargetResource,TargetAnnotation,TargetDataSet,BeginOffset,EndOffset,TargetKey,TargetData\n";

// base stores for the generic mutation streams (every item has a public id, so that the
// serialisations contain no temporary identifiers)
pub fn base_store(which: i64) -> AnnotationStore {
    let mut store = AnnotationStore::default()
        .with_id("c19")
        .with_resource(TextResourceBuilder::new().with_id("r").with_text("Hello w\u{f6}rld, this is text"))
        .unwrap()
        .with_resource(TextResourceBuilder::new().with_id("r2").with_text("second"))
        .unwrap();
    let mut add = |b: AnnotationBuilder| {
        store.annotate(b).unwrap();
    };
    add(AnnotationBuilder::new().with_id("A0").with_target(SelectorBuilder::textselector("r", Offset::simple(0, 5))).with_data_with_id("s", "k", "v", "D0"));
    add(AnnotationBuilder::new().with_id("A1").with_target(SelectorBuilder::textselector("r", Offset::new(Cursor::BeginAligned(6), Cursor::EndAligned(-14)))).with_data_with_id("s", "k", 5, "D1"));
    add(AnnotationBuilder::new().with_id("A2").with_target(SelectorBuilder::annotationselector("A0", Some(Offset::whole()))).with_data_with_id("s", "k2", "w", "D2"));
    if which >= 1 {
        add(AnnotationBuilder::new().with_id("M").with_target(SelectorBuilder::MultiSelector(vec![SelectorBuilder::textselector("r", Offset::simple(0, 2)), SelectorBuilder::textselector("r", Offset::simple(3, 4))])).with_data_with_id("s", "k2", "w", "D2"));
        add(AnnotationBuilder::new().with_id("RS").with_target(SelectorBuilder::resourceselector("r2")).with_data_with_id("s", "k3", true, "D3"));
        add(AnnotationBuilder::new().with_id("DS").with_target(SelectorBuilder::datasetselector("s")).with_data_with_id("s2", "k3", 1.5, "E0"));
        add(AnnotationBuilder::new().with_id("KS").with_target(SelectorBuilder::DataKeySelector("s".into(), "k".into())).with_data_with_id("s2", "k4", DataValue::List(vec![DataValue::Int(1), DataValue::String("x".to_string()), DataValue::Null]), "E1"));
        add(AnnotationBuilder::new().with_id("C").with_target(SelectorBuilder::CompositeSelector(vec![SelectorBuilder::annotationselector("A0", None), SelectorBuilder::annotationselector("A1", None)])).with_data_with_id("s", "k", "v", "D0"));
        add(AnnotationBuilder::new().with_id("D").with_target(SelectorBuilder::DirectionalSelector(vec![SelectorBuilder::textselector("r", Offset::simple(13, 17)), SelectorBuilder::resourceselector("r2")])).with_data_with_id("s", "k", "v", "D0"));
    }
    store
}

/// the files the library writes for a store in the given format, as (name, content)
fn serialise(which: i64, format: &str, dir: &str) -> Vec<(String, Vec<u8>)> {
    let d = format!("{}/ser-{}-{}", dir, format, which);
    let _ = std::fs::remove_dir_all(&d);
    std::fs::create_dir_all(&d).unwrap();
    let mut store = base_store(which);
    let name = match format {
        "csv" => "c.store.stam.csv",
        "cbor" => "c.store.stam.cbor",
        _ => "c.store.stam.json",
    };
    store.set_filename(&format!("{}/{}", d, name));
    store.save().expect("serialising the base store");
    let mut v = Vec::new();
    let mut names: Vec<String> = std::fs::read_dir(&d).unwrap().filter_map(|e| e.ok()).map(|e| e.file_name().to_string_lossy().to_string()).collect();
    names.sort();
    for n in names {
        v.push((n.clone(), std::fs::read(format!("{}/{}", d, n)).unwrap()));
    }
    let _ = std::fs::remove_dir_all(&d);
    v
}

const RETYPE: [&str; 16] = [
    "null", "true", "0", "-1", "18446744073709551616", "1e400", "-9223372036854775809", "\"\"", "\"x\"", "[]", "{}", "[[]]", "{\"@type\":\"x\"}",
    "\"!A0\"", "\"!\u{c9}1\"", "\"!A18446744073709551615\"",
];
const STRINGS: [&str; 12] = ["nope", "A0", "A2", "r", "s", "!A0", "!R1", "!\u{c9}1", "!", "!A99999999999", "!D18446744073709551615", ""];
const INTS: [&str; 12] = ["0", "-1", "1", "25", "26", "2147483648", "4294967296", "9223372036854775808", "18446744073709551615", "18446744073709551616", "-9223372036854775808", "-9223372036854775807"];

fn map_string(j: &J, v: usize) -> Option<J> {
    match j {
        J::Str(_) => Some(J::Str(STRINGS[v % STRINGS.len()].to_string())),
        _ => None,
    }
}
fn map_int(j: &J, v: usize) -> Option<J> {
    match j {
        J::Num(_) => Some(J::Num(INTS[v % INTS.len()].to_string())),
        _ => None,
    }
}

/// one case = what to load and how to summarise the result
enum Load {
    JsonStr(String, Config),
    File(String, Config),
    /// load the first document, then merge_json_str the second into the store
    Merge(String, String, Config),
    /// load both (n and 4n items); the cpu times are compared
    Scale(String, String),
    /// load the document, then annotate_from_file the file
    AnnotateFile(String, String),
    /// from_file(first), then 0: with_file(second file), 1: merge_json_file(second file), 2: merge_json_str(second = text)
    FileThen(String, i64, String),
    None,
}

struct Case {
    load: Load,
    input_bytes: usize,
    /// what the second sub-case reports for a loaded store
    report: fn(&AnnotationStore) -> Sx,
    probe: bool,
    note: &'static str,
}

fn report_none(_: &AnnotationStore) -> Sx {
    l(vec![a(0)])
}
fn report_annotations(st: &AnnotationStore) -> Sx {
    l(vec![a(0), a(st.annotations_len() as i64), l(st.annotations().map(|x| a(x.handle().as_usize() as i64)).collect())])
}
fn report_data_count(st: &AnnotationStore) -> Sx {
    l(vec![a(0), a(st.dataset("s").map(|ds| ds.data().count()).unwrap_or(0) as i64)])
}
fn report_data(st: &AnnotationStore) -> Sx {
    match st.dataset("s") {
        Some(ds) => l(vec![a(0), a(ds.as_ref().data_len() as i64), l(ds.data().map(|x| a(x.handle().as_usize() as i64)).collect())]),
        None => l(vec![a(0), a(0), l(vec![])]),
    }
}

fn prepare(req: &Sx, dir: &str, cache: &mut Cache) -> Case {
    let kind = req.nth(0).int();
    match kind {
        1 => {
            let doc = doc_annotations(req);
            let n = doc.len();
            Case { load: Load::JsonStr(doc, cfgd().with_strip_temp_ids(req.nth(1).int() != 0)), input_bytes: n, report: report_annotations, probe: true, note: "" }
        }
        2 => {
            let doc = doc_data(req);
            let n = doc.len();
            Case { load: Load::JsonStr(doc, cfgd().with_strip_temp_ids(req.nth(1).int() != 0)), input_bytes: n, report: report_data, probe: true, note: "" }
        }
        3 => {
            csv_fixture(dir);
            let mut f = String::from(CSV_HEADER);
            f.push_str("A0,D0,s,TextSelector,r,,,0,5,,\n");
            let cols: Vec<String> = (1..=11).map(|i| csv_field(&req.nth(i).string())).collect();
            f.push_str(&cols.join(","));
            f.push('\n');
            write_file(dir, "c.annotations.stam.csv", f.as_bytes());
            Case { load: Load::File(format!("{}/c.store.stam.csv", dir), cfgd()), input_bytes: f.len() + 300, report: report_none, probe: true, note: "" }
        }
        4 => {
            // (4 base kind n v): generic mutation of a STAM JSON document
            let base = req.nth(1).int();
            let mk = req.nth(2).int();
            let n = req.nth(3).int() as usize;
            let v = req.nth(4).int() as usize;
            let text = cache.json(base, dir).clone();
            let tree = cache.json_tree(base, dir).clone();
            let (bytes, note): (Vec<u8>, &'static str) = match mk {
                0 => {
                    let (t, hit) = jedit(&tree, n, &Edit::Delete);
                    (t.to_text().into_bytes(), hit)
                }
                1 => {
                    let (t, hit) = jedit(&tree, n, &Edit::Duplicate);
                    (t.to_text().into_bytes(), hit)
                }
                2 => {
                    let (t, hit) = jedit(&tree, n, &Edit::SwapNext);
                    (t.to_text().into_bytes(), hit)
                }
                3 => {
                    let rep = jparse(RETYPE[v % RETYPE.len()]).unwrap_or(J::Null);
                    let (t, hit) = jedit(&tree, n, &Edit::Replace(rep));
                    (t.to_text().into_bytes(), hit)
                }
                4 => {
                    let (t, hit) = jedit(&tree, n, &Edit::Map(map_string, v));
                    (t.to_text().into_bytes(), hit)
                }
                5 => {
                    let (t, hit) = jedit(&tree, n, &Edit::Map(map_int, v));
                    (t.to_text().into_bytes(), hit)
                }
                6 => {
                    let mut b = text.clone().into_bytes();
                    b.truncate(n.min(b.len()));
                    (b, "trunc")
                }
                _ => {
                    let mut b = text.clone().into_bytes();
                    if !b.is_empty() {
                        let i = (n / 8) % b.len();
                        b[i] ^= 1 << (n % 8);
                    }
                    (b, "flip")
                }
            };
            let len = bytes.len();
            match String::from_utf8(bytes) {
                Ok(s) if mk < 6 || v % 2 == 0 => Case { load: Load::JsonStr(s, cfgd()), input_bytes: len, report: report_none, probe: true, note },
                Ok(s) => {
                    write_file(dir, "m.store.stam.json", s.as_bytes());
                    Case { load: Load::File(format!("{}/m.store.stam.json", dir), cfgd()), input_bytes: len, report: report_none, probe: true, note }
                }
                Err(e) => {
                    write_file(dir, "m.store.stam.json", e.as_bytes());
                    Case { load: Load::File(format!("{}/m.store.stam.json", dir), cfgd()), input_bytes: len, report: report_none, probe: true, note: "flip-nonutf8" }
                }
            }
        }
        5 => {
            // (5 base file kind pos v): generic mutation of one of the STAM CSV files
            let base = req.nth(1).int();
            let files = cache.files(base, "csv", dir).clone();
            let fi = (req.nth(2).int() as usize) % files.len();
            let mk = req.nth(3).int();
            let pos = req.nth(4).int() as usize;
            let v = req.nth(5).int() as usize;
            let mut total = 0;
            let mut note = "";
            for (i, (name, content)) in files.iter().enumerate() {
                let mut b = content.clone();
                if i == fi {
                    match mk {
                        0 => {
                            b.truncate(pos.min(b.len()));
                            note = "trunc";
                        }
                        1 => {
                            if !b.is_empty() {
                                let k = (pos / 8) % b.len();
                                b[k] ^= 1 << (pos % 8);
                            }
                            note = "flip";
                        }
                        _ => {
                            // replace cell number pos (row-major, header excluded) by a string
                            if let Ok(s) = String::from_utf8(b.clone()) {
                                let mut lines: Vec<Vec<String>> = s.lines().map(|ln| ln.split(',').map(|c| c.to_string()).collect()).collect();
                                let cells: usize = lines.iter().skip(1).map(|r| r.len()).sum();
                                if cells > 0 {
                                    let mut k = pos % cells;
                                    for row in lines.iter_mut().skip(1) {
                                        if k < row.len() {
                                            row[k] = csv_field(CELLS[v % CELLS.len()]);
                                            break;
                                        }
                                        k -= row.len();
                                    }
                                    b = (lines.iter().map(|r| r.join(",")).collect::<Vec<_>>().join("\n") + "\n").into_bytes();
                                    note = "cell";
                                }
                            }
                        }
                    }
                }
                total += b.len();
                write_file(dir, name, &b);
            }
            Case { load: Load::File(format!("{}/c.store.stam.csv", dir), cfgd()), input_bytes: total, report: report_none, probe: true, note }
        }
        6 => {
            // (6 base kind pos): truncation / bit flip of the CBOR file; load-level safety only
            let base = req.nth(1).int();
            let files = cache.files(base, "cbor", dir).clone();
            let mut b = files.iter().find(|(n, _)| n.ends_with(".cbor")).map(|(_, c)| c.clone()).unwrap_or_default();
            let pos = req.nth(3).int() as usize;
            let note;
            if req.nth(2).int() == 0 {
                b.truncate(pos.min(b.len()));
                note = "trunc";
            } else {
                if !b.is_empty() {
                    let k = (pos / 8) % b.len();
                    b[k] ^= 1 << (pos % 8);
                }
                note = "flip";
            }
            write_file(dir, "m.store.stam.cbor", &b);
            Case { load: Load::File(format!("{}/m.store.stam.cbor", dir), cfgd()), input_bytes: b.len(), report: report_none, probe: false, note }
        }
        7 => prepare_targeted(req, dir, cache),
        8 => {
            let n = req.nth(1).int().max(0) as usize;
            let hasid = req.nth(2).int() != 0;
            let samekey = req.nth(3).int() != 0;
            let d1 = doc_scale(n, hasid, samekey);
            let d4 = doc_scale(4 * n, hasid, samekey);
            let bytes = d4.len();
            Case { load: Load::Scale(d1, d4), input_bytes: bytes, report: report_none, probe: false, note: "scale" }
        }
        9 => {
            let mut first = String::from(PRELUDE);
            first.push_str(r#","annotations":[{"@type":"Annotation","@id":"base","target":{"@type":"ResourceSelector","resource":"r"},"data":[]}]}"#);
            // the arrays of the request as a document of their own
            let as1 = l(vec![a(1), req.nth(1).clone(), a(0), req.nth(2).clone()]);
            let full = doc_annotations(&as1);
            let second = format!("{{\"@type\":\"AnnotationStore\"{}", &full[PRELUDE.len()..]);
            let n = first.len() + second.len();
            Case { load: Load::Merge(first, second, cfgd().with_strip_temp_ids(req.nth(1).int() != 0)), input_bytes: n, report: report_annotations, probe: true, note: "merge" }
        }
        10 => prepare_files(req, dir),
        11 => prepare_ann_offset(req, dir),
        13 => prepare_merge(req, dir),
        17 => prepare_many_subselectors(req, dir),
        16 => {
            let n = req.nth(2).int().max(0) as usize;
            let head = r#"{"@type":"AnnotationStore","@id":"c19","resources":[{"@type":"TextResource","@id":"r","text":"abcdefghij"}],"annotationsets":[{"@type":"AnnotationDataSet","@id":"s","keys":[{"@type":"DataKey","@id":"k"}]}]"#;
            let anns: Vec<String> = (0..n)
                .map(|i| format!(r#"{{"@type":"Annotation","@id":"a{}","target":{{"@type":"ResourceSelector","resource":"r"}},"data":[{{"@type":"AnnotationData","@id":"","set":"s","key":"k{}","value":{{"@type":"Int","value":{}}}}}]}}"#, i, i % 2, i))
                .collect();
            if req.nth(1).int() == 0 {
                let doc = format!(r#"{},"annotations":[{}]}}"#, head, anns.join(","));
                let len = doc.len();
                Case { load: Load::JsonStr(doc, cfgd()), input_bytes: len, report: report_data_count, probe: true, note: "empty_id_store" }
            } else {
                write_file(dir, "more.json", format!("[{}]", anns.join(",")).as_bytes());
                Case { load: Load::AnnotateFile(format!("{}}}", head), format!("{}/more.json", dir)), input_bytes: 400 + 200 * n, report: report_data_count, probe: true, note: "empty_id_file" }
            }
        }
        14 => {
            // with_file() of a STAM CSV store on a non-empty (0) / empty (1) store
            csv_fixture(dir);
            write_file(dir, "c.annotations.stam.csv", format!("{}A0,D0,s,TextSelector,r,,,0,5,,\n", CSV_HEADER).as_bytes());
            let first = if req.nth(1).int() == 0 {
                r#"{"@type":"AnnotationStore","@id":"x","resources":[{"@type":"TextResource","@id":"q","text":"hello"}]}"#
            } else {
                r#"{"@type":"AnnotationStore","@id":"x"}"#
            };
            write_file(dir, "i.store.stam.json", first.as_bytes());
            Case { load: Load::FileThen(format!("{}/i.store.stam.json", dir), 0, format!("{}/c.store.stam.csv", dir)), input_bytes: 600, report: report_none, probe: true, note: "with_file_csv" }
        }
        12 => {
            // (12 base header variant): the length header of one array / map / string of the CBOR file rewritten
            let base = req.nth(1).int();
            let files = cache.files(base, "cbor", dir).clone();
            let b = files.iter().find(|(n, _)| n.ends_with(".cbor")).map(|(_, c)| c.clone()).unwrap_or_default();
            let hs = cbor_headers(&b);
            if hs.is_empty() {
                return Case { load: Load::None, input_bytes: 0, report: report_none, probe: false, note: "cbor_no_headers" };
            }
            let (pos, major, hdr, len) = hs[(req.nth(2).int().max(0) as usize) % hs.len()];
            let (v, size): (u64, usize) = match req.nth(3).int() {
                0 => (u64::MAX, 8),
                1 => (1 << 63, 8),
                2 => (1 << 32, 8),
                3 => (0xffff_ffff, 4),
                4 => (0x7fff_ffff, 4),
                5 => (65536, 4),
                6 => (65535, 2),
                7 => (256, 2),
                8 => (255, 1),
                9 => (len, 1),
                10 => (len, 2),
                11 => (len, 4),
                12 => (len, 8),
                13 => (0, 99),
                14 => (len + 1, if len + 1 < 24 { 0 } else { 1 }),
                15 => (len.saturating_sub(1), if len < 25 { 0 } else { 1 }),
                16 => (0, 0),
                17 => (0x0100_0000, 4),
                18 => (1 << 40, 8),
                _ => (23, 0),
            };
            let mut nb = b[..pos].to_vec();
            nb.extend_from_slice(&cbor_header(major, v, size));
            nb.extend_from_slice(&b[pos + hdr..]);
            write_file(dir, "m.store.stam.cbor", &nb);
            let note = match major {
                2 | 3 => "cbor_len_string",
                4 => "cbor_len_array",
                _ => "cbor_len_map",
            };
            Case { load: Load::File(format!("{}/m.store.stam.cbor", dir), cfgd()), input_bytes: nb.len(), report: report_none, probe: false, note }
        }
        _ => Case { load: Load::None, input_bytes: 0, report: report_none, probe: false, note: "unknown" },
    }
}

/// (11 mode tkind b e): annotation A2 = AnnotationSelector(A1, offset b..e) where A1's own target
/// is of kind tkind; mode 0 STAM JSON store, 1 annotate_from_file, 2 STAM CSV
fn prepare_ann_offset(req: &Sx, dir: &str) -> Case {
    let mode = req.nth(1).int();
    let tkind = req.nth(2).int();
    // an offset value is a small number or a decimal string
    let val = |x: &Sx| -> String {
        match x {
            Sx::A(z) => z.to_string(),
            Sx::L(_) => x.string(),
        }
    };
    let (b, e) = (val(req.nth(3)), val(req.nth(4)));
    let text = |b: i64, e: i64| format!(r#"{{"@type":"TextSelector","resource":"r","offset":{{"@type":"Offset","begin":{{"@type":"BeginAlignedCursor","value":{}}},"end":{{"@type":"BeginAlignedCursor","value":{}}}}}}}"#, b, e);
    let res = |r: &str| format!(r#"{{"@type":"ResourceSelector","resource":"{}"}}"#, r);
    let dset = r#"{"@type":"DataSetSelector","annotationset":"s"}"#.to_string();
    let target_json = match tkind {
        0 => res("r"),
        1 => dset.clone(),
        2 => r#"{"@type":"DataKeySelector","annotationset":"s","key":"k"}"#.to_string(),
        3 => r#"{"@type":"AnnotationDataSelector","annotationset":"s","data":"D0"}"#.to_string(),
        4 => r#"{"@type":"AnnotationSelector","annotation":"A0"}"#.to_string(),
        5 => text(0, 5),
        6 => r#"{"@type":"AnnotationSelector","annotation":"A0","offset":{"@type":"Offset","begin":{"@type":"BeginAlignedCursor","value":1},"end":{"@type":"BeginAlignedCursor","value":3}}}"#.to_string(),
        10 => text(2, 7),
        7 => format!(r#"{{"@type":"CompositeSelector","selectors":[{},{}]}}"#, text(0, 2), text(6, 8)),
        8 => format!(r#"{{"@type":"MultiSelector","selectors":[{},{}]}}"#, res("r"), dset),
        _ => format!(r#"{{"@type":"DirectionalSelector","selectors":[{},{}]}}"#, text(0, 2), res("r2")),
    };
    let ann = |id: &str, target: &str, data: &str| format!(r#"{{"@type":"Annotation","@id":"{}","target":{},"data":[{{"@type":"AnnotationData","@id":"{}","set":"s","key":"k","value":{{"@type":"String","value":"{}"}}}}]}}"#, id, target, data, data);
    let a2_target = format!(r#"{{"@type":"AnnotationSelector","annotation":"A1","offset":{{"@type":"Offset","begin":{{"@type":"BeginAlignedCursor","value":{}}},"end":{{"@type":"BeginAlignedCursor","value":{}}}}}}}"#, b, e);
    let head = r#"{"@type":"AnnotationStore","@id":"c19","resources":[{"@type":"TextResource","@id":"r","text":"abcdefghij"},{"@type":"TextResource","@id":"r2","text":"second"}],"annotationsets":[{"@type":"AnnotationDataSet","@id":"s","keys":[{"@type":"DataKey","@id":"k"}],"data":[{"@type":"AnnotationData","@id":"D0","key":"k","value":{"@type":"String","value":"D0"}}]}]"#;
    let a0 = ann("A0", &text(0, 5), "D0");
    let a1 = ann("A1", &target_json, "D1");
    let a2 = ann("A2", &a2_target, "D2");
    match mode {
        0 => {
            let doc = format!(r#"{},"annotations":[{},{},{}]}}"#, head, a0, a1, a2);
            let n = doc.len();
            Case { load: Load::JsonStr(doc, cfgd()), input_bytes: n, report: report_none, probe: true, note: "ann_offset_json" }
        }
        1 => {
            let doc = format!(r#"{},"annotations":[{},{}]}}"#, head, a0, a1);
            write_file(dir, "more.json", format!("[{}]", a2).as_bytes());
            let n = doc.len() + a2.len();
            Case { load: Load::AnnotateFile(doc, format!("{}/more.json", dir)), input_bytes: n, report: report_none, probe: true, note: "ann_offset_file" }
        }
        _ => {
            csv_fixture(dir);
            let a1row = match tkind {
                0 => "A1,D0,s,ResourceSelector,r,,,,,,",
                1 => "A1,D0,s,DataSetSelector,,,s,,,,",
                2 => "A1,D0,s,DataKeySelector,,,s,,,k,",
                3 => "A1,D0,s,AnnotationDataSelector,,,s,,,,D0",
                4 => "A1,D0,s,AnnotationSelector,,A0,,,,,",
                5 => "A1,D0,s,TextSelector,r,,,0,5,,",
                6 => "A1,D0,s,AnnotationSelector,,A0,,1,3,,",
                10 => "A1,D0,s,TextSelector,r,,,2,7,,",
                7 => "A1,D0,s,CompositeSelector;TextSelector;TextSelector,;r;r,;;,;;,;0;6,;2;8,,",
                8 => "A1,D0,s,MultiSelector;ResourceSelector;DataSetSelector,;r;,;;,;;s,;;,;;,,",
                _ => "A1,D0,s,DirectionalSelector;TextSelector;ResourceSelector,;r;r2,;;,;;,;0;,;2;,,",
            };
            let f = format!("{}A0,D0,s,TextSelector,r,,,0,5,,\n{}\nA2,D1,s,AnnotationSelector,,A1,,{},{},,\n", CSV_HEADER, a1row, b, e);
            write_file(dir, "c.annotations.stam.csv", f.as_bytes());
            Case { load: Load::File(format!("{}/c.store.stam.csv", dir), cfgd()), input_bytes: f.len() + 300, report: report_none, probe: true, note: "ann_offset_csv" }
        }
    }
}

/// (13 mode def1 def2): the data set "set" defined twice; def = (keys ((id key) ..))
fn prepare_merge(req: &Sx, dir: &str) -> Case {
    let mode = req.nth(1).int();
    let set_json = |d: &Sx| -> String {
        let keys: Vec<String> = d.nth(0).list().iter().map(|k| format!(r#"{{"@type":"DataKey","@id":"k{}"}}"#, k.int())).collect();
        let data: Vec<String> = d.nth(1).list().iter().map(|x| format!(r#"{{"@type":"AnnotationData","@id":"D{}","key":"k{}","value":{{"@type":"String","value":"v{}"}}}}"#, x.nth(0).int(), x.nth(1).int(), x.nth(0).int())).collect();
        format!(r#"{{"@type":"AnnotationDataSet","@id":"set","keys":[{}],"data":[{}]}}"#, keys.join(","), data.join(","))
    };
    let store = |id: &str, inc: &str, sets: &[String]| format!(r#"{{"@type":"AnnotationStore","@id":"{}",{}"annotationsets":[{}]}}"#, id, inc, sets.join(","));
    let s1 = set_json(req.nth(2));
    let s2 = set_json(req.nth(3));
    let one = store("one", "", &[s1.clone()]);
    let two = store("two", "", &[s2.clone()]);
    write_file(dir, "one.store.stam.json", one.as_bytes());
    write_file(dir, "two.store.stam.json", two.as_bytes());
    let n = one.len() + two.len() + 100;
    let load = match mode {
        0 => {
            write_file(dir, "main.store.stam.json", store("main", r#""@include":["one.store.stam.json","two.store.stam.json"],"#, &[]).as_bytes());
            Load::File(format!("{}/main.store.stam.json", dir), cfgd())
        }
        1 => Load::FileThen(format!("{}/one.store.stam.json", dir), 0, format!("{}/two.store.stam.json", dir)),
        2 => Load::FileThen(format!("{}/one.store.stam.json", dir), 2, two.clone()),
        3 => Load::FileThen(format!("{}/one.store.stam.json", dir), 1, format!("{}/two.store.stam.json", dir)),
        _ => {
            write_file(dir, "both.store.stam.json", store("both", "", &[s1, s2]).as_bytes());
            write_file(dir, "main.store.stam.json", store("main", r#""@include":["both.store.stam.json"],"#, &[]).as_bytes());
            Load::File(format!("{}/main.store.stam.json", dir), cfgd())
        }
    };
    Case { load, input_bytes: n, report: report_merged, probe: true, note: "dataset_merge" }
}

/// every data item by id with the key it sits under, and the keys
fn report_merged(st: &AnnotationStore) -> Sx {
    let num = |s: Option<&str>| -> i64 { s.and_then(|x| x[1..].parse().ok()).unwrap_or(-1) };
    match st.dataset("set") {
        Some(ds) => {
            let mut data: Vec<(i64, i64)> = ds
                .data()
                .map(|d| {
                    let id = num(d.id());
                    // retrieve by id, as a user would
                    let k = ds.annotationdata(format!("D{}", id).as_str()).map(|x| num(x.key().id())).unwrap_or(-2);
                    (id, k)
                })
                .collect();
            data.sort();
            let mut keys: Vec<i64> = ds.keys().map(|k| num(k.id())).collect();
            keys.sort();
            l(vec![a(0), l(data.iter().map(|(i, k)| l(vec![a(*i), a(*k)])).collect()), l(keys.iter().map(|k| a(*k)).collect())])
        }
        None => l(vec![a(0), l(vec![]), l(vec![])]),
    }
}

/// (17 mode ctype kinds): annotation X with one complex selector over the given sub-selector kinds
/// (0 resource, 1 annotation, 2 text, 3 data set, 4 key, 5 data, 6 annotation with offset); every
/// reference resolves: T0 is an annotation on characters 0..50 of resource r (64 characters)
fn prepare_many_subselectors(req: &Sx, dir: &str) -> Case {
    let mode = req.nth(1).int();
    let ctype = ["CompositeSelector", "MultiSelector", "DirectionalSelector"][(req.nth(2).int().max(0) as usize) % 3];
    let kinds: Vec<i64> = req.nth(3).list().iter().map(|k| k.int()).collect();
    let text64 = "abcdefghijklmnopqrstuvwxyzABCDEFGHIJKLMNOPQRSTUVWXYZ0123456789-_";
    let off = |b: usize, e: usize| format!(r#"{{"@type":"Offset","begin":{{"@type":"BeginAlignedCursor","value":{}}},"end":{{"@type":"BeginAlignedCursor","value":{}}}}}"#, b, e);
    match mode {
        0 | 2 => {
            let subs: Vec<String> = kinds
                .iter()
                .enumerate()
                .map(|(i, k)| match k {
                    0 => format!(r#"{{"@type":"ResourceSelector","resource":"{}"}}"#, if i % 2 == 0 { "r" } else { "r2" }),
                    1 => r#"{"@type":"AnnotationSelector","annotation":"T0"}"#.to_string(),
                    2 => format!(r#"{{"@type":"TextSelector","resource":"r","offset":{}}}"#, off(i % 60, i % 60 + 1)),
                    3 => r#"{"@type":"DataSetSelector","annotationset":"s"}"#.to_string(),
                    4 => r#"{"@type":"DataKeySelector","annotationset":"s","key":"k"}"#.to_string(),
                    5 => r#"{"@type":"AnnotationDataSelector","annotationset":"s","data":"D0"}"#.to_string(),
                    _ => format!(r#"{{"@type":"AnnotationSelector","annotation":"T0","offset":{}}}"#, off(i % 48, i % 48 + 1)),
                })
                .collect();
            let head = format!(
                r#"{{"@type":"AnnotationStore","@id":"c19","resources":[{{"@type":"TextResource","@id":"r","text":"{}"}},{{"@type":"TextResource","@id":"r2","text":"second"}}],"annotationsets":[{{"@type":"AnnotationDataSet","@id":"s","keys":[{{"@type":"DataKey","@id":"k"}}],"data":[{{"@type":"AnnotationData","@id":"D0","key":"k","value":{{"@type":"String","value":"v"}}}}]}}],"annotations":[{{"@type":"Annotation","@id":"T0","target":{{"@type":"TextSelector","resource":"r","offset":{}}},"data":[]}}"#,
                text64,
                off(0, 50)
            );
            let x = format!(r#"{{"@type":"Annotation","@id":"X","target":{{"@type":"{}","selectors":[{}]}},"data":[]}}"#, ctype, subs.join(","));
            if mode == 0 {
                let doc = format!("{},{}]}}", head, x);
                let n = doc.len();
                Case { load: Load::JsonStr(doc, cfgd()), input_bytes: n, report: report_none, probe: true, note: "many_subselectors_json" }
            } else {
                write_file(dir, "more.json", format!("[{}]", x).as_bytes());
                let n = head.len() + x.len();
                Case { load: Load::AnnotateFile(format!("{}]}}", head), format!("{}/more.json", dir)), input_bytes: n, report: report_none, probe: true, note: "many_subselectors_file" }
            }
        }
        _ => {
            csv_fixture(dir);
            write_file(dir, "r.txt", text64.as_bytes());
            let mut col: Vec<Vec<String>> = vec![vec![String::new()]; 8]; // kind res ann dset begin end key data
            col[0][0] = ctype.to_string();
            for (i, k) in kinds.iter().enumerate() {
                let (kind, res, ann, dset, b, e, key, data): (&str, String, &str, &str, String, String, &str, &str) = match k {
                    0 => ("ResourceSelector", (if i % 2 == 0 { "r" } else { "r2" }).to_string(), "", "", String::new(), String::new(), "", ""),
                    1 => ("AnnotationSelector", String::new(), "T0", "", String::new(), String::new(), "", ""),
                    2 => ("TextSelector", "r".to_string(), "", "", (i % 60).to_string(), (i % 60 + 1).to_string(), "", ""),
                    3 => ("DataSetSelector", String::new(), "", "s", String::new(), String::new(), "", ""),
                    4 => ("DataKeySelector", String::new(), "", "s", String::new(), String::new(), "k", ""),
                    5 => ("AnnotationDataSelector", String::new(), "", "s", String::new(), String::new(), "", "D0"),
                    _ => ("AnnotationSelector", String::new(), "T0", "", (i % 48).to_string(), (i % 48 + 1).to_string(), "", ""),
                };
                for (c, v) in col.iter_mut().zip([kind.to_string(), res, ann.to_string(), dset.to_string(), b, e, key.to_string(), data.to_string()]) {
                    c.push(v);
                }
            }
            let cells: Vec<String> = col.iter().map(|c| c.join(";")).collect();
            let f = format!("{}T0,D0,s,TextSelector,r,,,0,50,,\nX,D0,s,{}\n", CSV_HEADER, cells.join(","));
            write_file(dir, "c.annotations.stam.csv", f.as_bytes());
            Case { load: Load::File(format!("{}/c.store.stam.csv", dir), cfgd()), input_bytes: f.len() + 300, report: report_none, probe: true, note: "many_subselectors_csv" }
        }
    }
}

/// (10 which): documents that refer to files in unusual ways; measured only
fn prepare_files(req: &Sx, dir: &str) -> Case {
    let which = req.nth(1).int();
    let store_with = |extra: &str| format!(r#"{{"@type":"AnnotationStore","@id":"x"{},"resources":[{{"@type":"TextResource","@id":"r","text":"hello"}}],"annotations":[{{"@type":"Annotation","@id":"a","target":{{"@type":"ResourceSelector","resource":"r"}},"data":[]}}]}}"#, extra);
    let mut main = "i.store.stam.json".to_string();
    match which {
        0 => write_file(dir, &main, store_with(r#","@include":"i.store.stam.json""#).as_bytes()),
        1 => {
            write_file(dir, &main, br#"{"@type":"AnnotationStore","@id":"a","@include":"j.store.stam.json"}"#);
            write_file(dir, "j.store.stam.json", br#"{"@type":"AnnotationStore","@id":"b","@include":"i.store.stam.json"}"#);
        }
        2 => write_file(dir, &main, store_with(r#","@include":["j.store.stam.json","j.store.stam.json","missing.json"]"#).as_bytes()),
        3 => write_file(dir, &main, br#"{"@type":"AnnotationStore","@id":"x","resources":[{"@type":"TextResource","@id":"r","@include":"missing.txt"}]}"#),
        4 => write_file(dir, &main, br#"{"@type":"AnnotationStore","@id":"x","resources":[{"@type":"TextResource","@id":"r","@include":"."}]}"#),
        5 => write_file(dir, &main, br#"{"@type":"AnnotationStore","@id":"x","resources":[{"@type":"TextResource","@id":"r","@include":"/dev/null"}],"annotationsets":[{"@type":"AnnotationDataSet","@id":"s","@include":"/dev/null"}]}"#),
        6 => write_file(dir, &main, br#"{"@type":"AnnotationStore","@id":"x","annotationsets":[{"@type":"AnnotationDataSet","@id":"s","@include":"i.store.stam.json"}]}"#),
        7 => write_file(dir, &main, br#"{"@type":"AnnotationStore","@id":"x","resources":[{"@type":"TextResource","@id":"r","@include":"i.store.stam.json"}]}"#),
        8 => write_file(dir, &main, br#"{"@type":"AnnotationStore","@id":"x","@include":"https://example.org/x.json","resources":[{"@type":"TextResource","@id":"r","@include":"file:///nonexistent"}]}"#),
        9 | 10 | 11 | 12 => {
            // STAM CSV manifests that point back at themselves
            main = "c.store.stam.csv".to_string();
            csv_fixture(dir);
            write_file(dir, "c.annotations.stam.csv", CSV_HEADER.as_bytes());
            let m: &[u8] = match which {
                9 => b"Type,Id,Filename\nAnnotationStore,c19,c.store.stam.csv\n",
                10 => b"Type,Id,Filename\nAnnotationStore,c19,c.annotations.stam.csv\nAnnotationDataSet,s,c.store.stam.csv\n",
                11 => b"Type,Id,Filename\nAnnotationStore,c19,c.annotations.stam.csv\nTextResource,r,c.store.stam.csv\nTextResource,r9,r.json\n",
                _ => b"Type,Id,Filename\nAnnotationStore,c19,c.annotations.stam.csv\nAnnotationStore,c19,c.annotations.stam.csv\nConfig,x,y\n",
            };
            write_file(dir, &main, m);
            write_file(dir, "r.json", br#"{"@type":"TextResource","@id":"r9","@include":"r.json"}"#);
        }
        _ => write_file(dir, &main, store_with("").as_bytes()),
    }
    Case { load: Load::File(format!("{}/{}", dir, main), cfgd()), input_bytes: 600, report: report_none, probe: true, note: "files" }
}

const CELLS: [&str; 14] = ["", "nope", ";", ";;", "x;y", "-1", "99", "0", "TextSelector", "DataKeySelector", "CompositeSelector;TextSelector", "!A0", "!\u{c9}1", "AnnotationStore"];

fn prepare_targeted(req: &Sx, dir: &str, cache: &mut Cache) -> Case {
    match req.nth(1).int() {
        0 => {
            // a data value nested n lists deep inside the CBOR file
            let n = req.nth(2).int() as usize;
            let files = cache.files(0, "cbor", dir).clone();
            let b = files.iter().find(|(nm, _)| nm.ends_with(".cbor")).map(|(_, c)| c.clone()).unwrap_or_default();
            let pat = [0x82u8, 0x01, 0x81, 0x61, 0x76]; // DataValue::String("v") = [1, ["v"]]
            let at = find_all(&b, &pat);
            if at.len() != 1 {
                return Case { load: Load::None, input_bytes: 0, report: report_none, probe: false, note: "cbor_pattern_missing" };
            }
            let mut nb = b[..at[0]].to_vec();
            for _ in 0..n {
                nb.extend_from_slice(&[0x82, 0x05, 0x81, 0x81]); // List([ ... ])
            }
            nb.extend_from_slice(&[0x82, 0x00, 0x80]); // Null
            nb.extend_from_slice(&b[at[0] + pat.len()..]);
            write_file(dir, "m.store.stam.cbor", &nb);
            Case { load: Load::File(format!("{}/m.store.stam.cbor", dir), cfgd()), input_bytes: nb.len(), report: report_none, probe: true, note: "cbor_depth" }
        }
        1 => {
            // the text selection handle of annotation A0's TextSelector replaced by v
            let v = req.nth(2).int() as u64;
            let files = cache.files(0, "cbor", dir).clone();
            let b = files.iter().find(|(nm, _)| nm.ends_with(".cbor")).map(|(_, c)| c.clone()).unwrap_or_default();
            // [0, "A0", [[0,0]], [0, [0, 0, ...   (handle, id, data, TextSelector(resource 0, textselection 0, mode))
            let pat = [0x84u8, 0x00, 0x62, 0x41, 0x30, 0x81, 0x82, 0x00, 0x00, 0x82, 0x00, 0x83, 0x00, 0x00];
            let at = find_all(&b, &pat);
            if at.len() != 1 {
                return Case { load: Load::None, input_bytes: 0, report: report_none, probe: false, note: "cbor_pattern_missing" };
            }
            let mut nb = b[..at[0] + pat.len() - 1].to_vec();
            nb.extend_from_slice(&cbor_uint(v));
            nb.extend_from_slice(&b[at[0] + pat.len()..]);
            write_file(dir, "m.store.stam.cbor", &nb);
            Case { load: Load::File(format!("{}/m.store.stam.cbor", dir), cfgd()), input_bytes: nb.len(), report: report_none, probe: true, note: "cbor_handle" }
        }
        2 => {
            let has_text = req.nth(2).int() != 0;
            write_file(dir, "i.store.stam.json", br#"{"@type":"AnnotationStore","@id":"x","resources":[{"@type":"TextResource","@id":"r","@include":"r.json"}]}"#);
            if has_text {
                write_file(dir, "r.json", br#"{"@type":"TextResource","@id":"r","text":"hello"}"#);
            } else {
                write_file(dir, "r.json", br#"{"@type":"TextResource","@id":"r","@include":"r.json"}"#);
            }
            Case { load: Load::File(format!("{}/i.store.stam.json", dir), cfgd()), input_bytes: 200, report: report_none, probe: true, note: "resource_include" }
        }
        4 => {
            if req.nth(2).int() == 0 {
                write_file(dir, "i.store.stam.json", br#"{"@type":"AnnotationStore","@id":"x","@include":"-"}"#);
            } else {
                write_file(dir, "i.store.stam.json", br#"{"@type":"AnnotationStore","@id":"x","annotationsets":[{"@type":"AnnotationDataSet","@id":"s","@include":"-"}]}"#);
            }
            Case { load: Load::File(format!("{}/i.store.stam.json", dir), cfgd()), input_bytes: 200, report: report_none, probe: true, note: "stdin_include" }
        }
        _ => {
            let inc = req.nth(2).int();
            let files = req.nth(3).list();
            let incl = |j: i64| if j >= 0 { format!(r#","@include":"f{}.json""#, j) } else { String::new() };
            write_file(dir, "i.store.stam.json", format!(r#"{{"@type":"AnnotationStore","@id":"x","annotationsets":[{{"@type":"AnnotationDataSet","@id":"s"{}}}]}}"#, incl(inc)).as_bytes());
            for i in 0..40 {
                let _ = std::fs::remove_file(format!("{}/f{}.json", dir, i));
            }
            for (i, f) in files.iter().enumerate() {
                write_file(dir, &format!("f{}.json", i), format!(r#"{{"@type":"AnnotationDataSet","@id":"s"{},"keys":[{{"@type":"DataKey","@id":"k{}"}}]}}"#, incl(f.int()), i).as_bytes());
            }
            Case { load: Load::File(format!("{}/i.store.stam.json", dir), cfgd()), input_bytes: 200 + 120 * files.len(), report: report_none, probe: true, note: "dataset_include" }
        }
    }
}

/// base serialisations, produced once per process
pub struct Cache {
    json: Vec<Option<String>>,
    tree: Vec<Option<J>>,
    files: std::collections::BTreeMap<(i64, String), Vec<(String, Vec<u8>)>>,
}
impl Cache {
    pub fn new() -> Self {
        Cache { json: vec![None, None], tree: vec![None, None], files: Default::default() }
    }
    pub fn json(&mut self, base: i64, _dir: &str) -> &String {
        let i = (base.max(0) as usize) % 2;
        if self.json[i].is_none() {
            let store = base_store(i as i64);
            self.json[i] = Some(store.to_json_string(&Config::default().with_dataformat(DataFormat::Json { compact: true })).expect("base json"));
        }
        self.json[i].as_ref().unwrap()
    }
    pub fn json_tree(&mut self, base: i64, dir: &str) -> &J {
        let i = (base.max(0) as usize) % 2;
        if self.tree[i].is_none() {
            let t = jparse(self.json(base, dir)).expect("base json parses");
            self.tree[i] = Some(t);
        }
        self.tree[i].as_ref().unwrap()
    }
    pub fn files(&mut self, base: i64, format: &str, dir: &str) -> &Vec<(String, Vec<u8>)> {
        let i = (base.max(0)) % 2;
        let key = (i, format.to_string());
        if !self.files.contains_key(&key) {
            let v = serialise(i, format, dir);
            self.files.insert(key.clone(), v);
        }
        self.files.get(&key).unwrap()
    }
}

// ---------------------------------------------------------------------------------------
// child side

fn child_main(batch: &str) -> ! {
    let text = std::fs::read_to_string(batch).unwrap_or_default();
    let dir = format!("{}.d", batch);
    let _ = std::fs::create_dir_all(&dir);
    let mut outf = std::fs::OpenOptions::new().create(true).append(true).open(format!("{}.out", batch)).expect("child output");
    let start: usize = std::env::var("C19_START").ok().and_then(|x| x.parse().ok()).unwrap_or(0);
    let mut cache = Cache::new();
    for (idx, line) in text.lines().enumerate() {
        if idx < start {
            continue;
        }
        let req = match crate::sx::parse(line) {
            Some(r) => r,
            None => continue,
        };
        let (cfgk, req) = if req.nth(0).int() == 15 { (req.nth(1).int(), req.nth(2).clone()) } else { (0, req) };
        CUR_CFG.store(cfgk, std::sync::atomic::Ordering::SeqCst);
        let case = prepare(&req, &dir, &mut cache);
        let _ = writeln!(outf, "B {}", idx);
        reset_peak();
        let rss0 = rss_kb();
        let peak0 = peak_kb();
        let cpu0 = cpu_ms();
        let mut scale: Option<(u64, u64)> = None;
        let loaded = guard(|| match &case.load {
            Load::JsonStr(s, cfg) => Some(AnnotationStore::from_str(s, cfg.clone())),
            Load::File(f, cfg) => Some(AnnotationStore::from_file(f, cfg.clone())),
            Load::Merge(first, second, cfg) => Some(AnnotationStore::from_str(first, cfg.clone()).and_then(|mut st| st.merge_json_str(second).map(|_| st))),
            Load::AnnotateFile(doc, file) => Some(AnnotationStore::from_str(doc, cfgd()).and_then(|mut st| st.annotate_from_file(file).map(|_| ()).map(|_| st))),
            Load::FileThen(first, op, second) => Some(AnnotationStore::from_file(first, cfgd()).and_then(|mut st| match op {
                0 => st.with_file(second),
                1 => st.merge_json_file(second).map(|_| st),
                _ => st.merge_json_str(second).map(|_| st),
            })),
            Load::Scale(d1, d4) => {
                let t0 = cpu_ms();
                let r1 = AnnotationStore::from_str(d1, cfgd());
                let t1 = cpu_ms();
                drop(r1);
                let t2 = cpu_ms();
                let r4 = AnnotationStore::from_str(d4, cfgd());
                let t3 = cpu_ms();
                scale = Some((t1 - t0, t3 - t2));
                Some(r4)
            }
            Load::None => None,
        });
        let cpu = cpu_ms().saturating_sub(cpu0);
        // if the peak counter could not be reset and did not move, fall back to the current size
        let peak1 = peak_kb();
        let grow = if peak1 > peak0 || peak0 <= rss0 + 1024 { peak1.saturating_sub(rss0) } else { rss_kb().saturating_sub(rss0) };
        let (mut safety, result, store) = match loaded {
            None => (1, l(vec![a(9)]), None),
            Some(None) => (0, l(vec![a(9)]), None),
            Some(Some(Err(_e))) => {
                let res = if req.nth(0).int() == 3 {
                    // CSV row: was it the row decoder that refused?
                    match _e {
                        StamError::CsvError(..) | StamError::InvalidCursor(..) | StamError::ValueError(..) => l(vec![a(1)]),
                        _ => l(vec![a(0)]),
                    }
                } else {
                    l(vec![a(1)])
                };
                (0, res, None)
            }
            Some(Some(Ok(st))) => {
                let rep = guard(|| (case.report)(&st));
                match rep {
                    Some(r) => (0, r, Some(st)),
                    None => (6, l(vec![a(9)]), Some(st)),
                }
            }
        };
        if safety == 0 && grow > mem_budget_kb(case.input_bytes) {
            safety = 4;
        } else if safety == 0 && cpu > cpu_budget_ms(case.input_bytes) {
            safety = 5;
        } else if let Some((t1, t4)) = scale {
            // four times the input must not take more than seven times the cpu time
            if safety == 0 && t4 > 300 && t4 > 7 * t1.max(1) {
                safety = 5;
            }
        }
        let _ = writeln!(outf, "L {} {} {} {} {} {}", idx, safety, result, grow, cpu, if case.note.is_empty() { "-" } else { case.note });
        let mut p = 0;
        if let Some(st) = store {
            if case.probe {
                if guard(|| probe(&st)).is_none() {
                    p = 1;
                }
                // dropping a deeply nested value can overflow the stack too: do it before P is written
                drop(st);
            } else {
                // mutated CBOR: the lookups are informative only and may not terminate on a store with
                // cyclic references; give them three seconds, then start over with a fresh process
                let (tx, rx) = std::sync::mpsc::channel();
                std::thread::spawn(move || {
                    let r = guard(|| probe(&st)).is_none();
                    drop(st);
                    let _ = tx.send(r);
                });
                match rx.recv_timeout(std::time::Duration::from_secs(3)) {
                    Ok(failed) => p = failed as i64,
                    Err(std::sync::mpsc::RecvTimeoutError::Timeout) => {
                        let _ = writeln!(outf, "P {} 12", idx);
                        std::process::exit(77);
                    }
                    Err(_) => p = 1, // the thread died (stack overflow aborts the process before we get here)
                }
            }
        }
        let _ = writeln!(outf, "P {} {}", idx, if case.probe { p } else { p + 10 });
    }
    std::process::exit(0);
}

// ---------------------------------------------------------------------------------------
// parent side

#[derive(Clone, Debug)]
pub struct Obs {
    pub safety: i64,
    pub result: Sx,
    pub grow_kb: u64,
    pub cpu_ms: u64,
    pub note: String,
    pub probe_failed: bool,
}

static BATCH_NO: std::sync::atomic::AtomicUsize = std::sync::atomic::AtomicUsize::new(0);

/// run the requests in child processes; one observation per request
pub fn run_batch(reqs: &[Sx]) -> Vec<Obs> {
    let wd = workdir();
    std::fs::create_dir_all(&wd).expect("work directory");
    let no = BATCH_NO.fetch_add(1, std::sync::atomic::Ordering::SeqCst);
    let batch = format!("{}/b{}-{}", wd, std::process::id(), no);
    let mut text = String::new();
    for r in reqs {
        text.push_str(&r.to_string());
        text.push('\n');
    }
    std::fs::write(&batch, text).expect("batch file");
    let outp = format!("{}.out", batch);
    let _ = std::fs::remove_file(&outp);
    let exe = std::env::current_exe().expect("current exe");
    let mut obs: Vec<Option<Obs>> = vec![None; reqs.len()];
    let mut start = 0usize;
    while start < reqs.len() {
        let mut child = Command::new("sh")
            .arg("-c")
            .arg(format!("ulimit -v {}; ulimit -c 0; exec \"$0\" \"$@\"", MEM_LIMIT_KB))
            .arg(&exe)
            .arg("gen")
            .arg(format!("child:{}", batch))
            .arg("0")
            .arg("/dev/null")
            .arg("/dev/null")
            .env("C19_START", start.to_string())
            .env("RUST_BACKTRACE", "0")
            .stdin(Stdio::piped())
            .stdout(Stdio::null())
            .stderr(Stdio::null())
            .spawn()
            .expect("cannot start child");
        // wait for the child; kill it if the output file does not grow for HANG_SECS
        let mut last_len = 0u64;
        let mut last_change = std::time::Instant::now();
        let mut hung = false;
        let status = loop {
            match child.try_wait() {
                Ok(Some(st)) => break Some(st),
                Ok(None) => {}
                Err(_) => break None,
            }
            let len = std::fs::metadata(&outp).map(|m| m.len()).unwrap_or(0);
            if len != last_len {
                last_len = len;
                last_change = std::time::Instant::now();
            } else if last_change.elapsed().as_secs() >= HANG_SECS {
                let _ = child.kill();
                let _ = child.wait();
                hung = true;
                break None;
            }
            std::thread::sleep(std::time::Duration::from_millis(2));
        };
        // read what the child reported
        let out = std::fs::read_to_string(&outp).unwrap_or_default();
        let mut begun: Option<usize> = None;
        let mut done_upto = start;
        for line in out.lines() {
            let mut it = line.splitn(2, ' ');
            let tag = it.next().unwrap_or("");
            let rest = it.next().unwrap_or("");
            match tag {
                "B" => begun = rest.trim().parse().ok(),
                "L" => {
                    // idx safety result grow cpu note ; result is an s-expression without spaces only if atoms... parse from the right
                    let mut parts = rest.splitn(3, ' ');
                    let idx: usize = parts.next().unwrap_or("0").parse().unwrap_or(0);
                    let safety: i64 = parts.next().unwrap_or("0").parse().unwrap_or(0);
                    let tail = parts.next().unwrap_or("");
                    let mut t: Vec<&str> = tail.rsplitn(4, ' ').collect(); // note cpu grow result
                    t.reverse();
                    if t.len() == 4 && idx < obs.len() {
                        obs[idx] = Some(Obs {
                            safety,
                            result: crate::sx::parse(t[0]).unwrap_or(l(vec![a(9)])),
                            grow_kb: t[1].parse().unwrap_or(0),
                            cpu_ms: t[2].parse().unwrap_or(0),
                            note: t[3].to_string(),
                            probe_failed: false,
                        });
                    }
                }
                "P" => {
                    let mut parts = rest.split(' ');
                    let idx: usize = parts.next().unwrap_or("0").parse().unwrap_or(0);
                    let p: i64 = parts.next().unwrap_or("0").parse().unwrap_or(0);
                    if idx < obs.len() {
                        if let Some(o) = obs[idx].as_mut() {
                            if p % 10 != 0 {
                                o.probe_failed = true;
                                if p < 10 && o.safety == 0 {
                                    o.safety = 6;
                                }
                            }
                        }
                    }
                    done_upto = idx + 1;
                    begun = None;
                }
                _ => {}
            }
        }
        if matches!(status, Some(st) if st.code() == Some(77)) && !hung && begun.is_none() {
            // the child gave up on lookups that did not end and asks for a fresh process
            start = done_upto;
            continue;
        }
        let finished = matches!(status, Some(st) if st.success()) && !hung;
        if finished && begun.is_none() {
            // the child went through all remaining requests (unparsable lines yield nothing)
            break;
        }
        // the child died or hung while case `k` was running
        let k = begun.unwrap_or(done_upto);
        if k >= reqs.len() {
            break;
        }
        let probe_counts = !matches!(inner(&reqs[k]).nth(0).int(), 6 | 12);
        match obs[k].as_mut() {
            Some(o) => {
                // the load was over: the lookups (or dropping the store) killed the process
                o.probe_failed = true;
                if probe_counts && o.safety == 0 {
                    o.safety = 6;
                }
            }
            None => {
                obs[k] = Some(Obs { safety: if hung { 3 } else { 2 }, result: l(vec![a(9)]), grow_kb: 0, cpu_ms: 0, note: if hung { "hang".into() } else { "abort".into() }, probe_failed: false });
            }
        }
        start = k + 1;
    }
    let _ = std::fs::remove_file(&batch);
    let _ = std::fs::remove_file(&outp);
    let _ = std::fs::remove_dir_all(format!("{}.d", batch));
    obs.into_iter()
        .map(|o| o.unwrap_or(Obs { safety: 0, result: l(vec![a(9)]), grow_kb: 0, cpu_ms: 0, note: "skipped".into(), probe_failed: false }))
        .collect()
}

/// the observations of one request as the driver expects them
fn outputs(req: &Sx, o: &Obs) -> Vec<Sx> {
    match inner(req).nth(0).int() {
        1 | 2 | 7 | 8 | 9 | 11 | 13 | 16 | 17 => vec![l(vec![a(o.safety)]), if matches!(o.safety, 1 | 2 | 3) { l(vec![a(9)]) } else { o.result.clone() }],
        3 => vec![if o.safety == 1 { l(vec![a(-1)]) } else if o.safety == 2 { l(vec![a(-2)]) } else if o.safety != 0 { l(vec![a(-(o.safety))]) } else { o.result.clone() }],
        _ => vec![l(vec![a(o.safety)])],
    }
}

impl Ctx {
    pub fn new() -> Self {
        Ctx {}
    }
    pub fn exec(&self, req: &Sx) -> (Sx, Vec<Sx>, bool) {
        if req.nth(0).int() == 0 {
            let store = small_store();
            let r = exec_string(req.nth(1).int(), &req.nth(2).string(), &store);
            let nt = r.nth(0).int() == 1;
            return (req.clone(), vec![r], nt);
        }
        let o = run_batch(std::slice::from_ref(req));
        let nt = o[0].safety == 0 && o[0].result.nth(0).int() == 0;
        (req.clone(), outputs(req, &o[0]), nt)
    }
}

// ---------------------------------------------------------------------------------------
// generators

fn strings_over(alpha: &[&str], maxlen: usize) -> Vec<String> {
    let mut out = vec![String::new()];
    let mut frontier = vec![String::new()];
    for _ in 0..maxlen {
        let mut next = Vec::new();
        for p in &frontier {
            for c in alpha {
                next.push(format!("{}{}", p, c));
            }
        }
        out.extend(next.iter().cloned());
        frontier = next;
    }
    out
}

fn id_sx(id: &Option<String>) -> Sx {
    match id {
        Some(s) => sid(s),
        None => a(-1),
    }
}
fn elem(id: &Option<String>, build: bool, kinds: &[i64]) -> Sx {
    l(vec![id_sx(id), a(build as i64), l(kinds.iter().map(|k| a(*k)).collect())])
}


/// is the identifier resolved as a temporary one ('!', an ASCII capital, a decimal usize)
fn is_temp(id: &str) -> bool {
    let b = id.as_bytes();
    if b.len() < 3 || b[0] != b'!' || !b[1].is_ascii_uppercase() {
        return false;
    }
    let digits = if b[2] == b'+' { &id[3..] } else { &id[2..] };
    !digits.is_empty() && digits.bytes().all(|c| c.is_ascii_digit()) && digits.trim_start_matches('0').len() <= 20 && digits.parse::<u64>().is_ok()
}

/// public identifiers (those that stay identifiers) are distinct within the request
fn distinct_public(req: &Sx) -> bool {
    let req = inner(req);
    let kind = req.nth(0).int();
    let strip = req.nth(1).int() != 0;
    let arrays = if kind == 1 { req.nth(3) } else { req.nth(2) };
    let mut seen = std::collections::HashSet::new();
    if kind == 9 {
        seen.insert("base".to_string());
    }
    for arr in arrays.list() {
        for e in arr.list() {
            if let Some(id) = ostring(e.nth(0)) {
                if !id.is_empty() && !(strip && is_temp(&id)) && !seen.insert(id) {
                    return false;
                }
            }
        }
    }
    true
}

fn emit_children(out: &mut Out, reqs: Vec<(Sx, String)>, stats: &mut Stats) {
    let reqs: Vec<(Sx, String)> = reqs.into_iter().filter(|(r, _)| !matches!(inner(r).nth(0).int(), 1 | 2 | 9) || distinct_public(r)).collect();
    // several children in parallel
    let threads = 4usize;
    let chunk = ((reqs.len() + threads - 1) / threads).max(1);
    let chunks: Vec<Vec<(Sx, String)>> = reqs.chunks(chunk).map(|c| c.to_vec()).collect();
    let results: Vec<Vec<Obs>> = std::thread::scope(|s| {
        let hs: Vec<_> = chunks
            .iter()
            .map(|c| {
                s.spawn(move || {
                    let rs: Vec<Sx> = c.iter().map(|(r, _)| r.clone()).collect();
                    // batches of 500 requests keep a restart after an abort cheap
                    let mut all = Vec::new();
                    for part in rs.chunks(500) {
                        all.extend(run_batch(part));
                    }
                    all
                })
            })
            .collect();
        hs.into_iter().map(|h| h.join().expect("batch thread")).collect()
    });
    for (c, obs) in chunks.iter().zip(results.iter()) {
        for ((req, key), o) in c.iter().zip(obs.iter()) {
            let nt = o.safety == 0 && o.result.nth(0).int() == 0;
            out.case(req, &outputs(req, o), nt, req);
            out.count(key);
            out.count(&format!("safety_{}", o.safety));
            if !o.note.is_empty() && o.note != "-" {
                out.count(&format!("note_{}", o.note));
            }
            match o.result.nth(0).int() {
                0 => out.count("result_loaded"),
                1 => out.count("result_error"),
                _ => out.count("result_na"),
            }
            if o.probe_failed {
                out.count(&format!("lookups_failed_kind{}", inner(req).nth(0).int()));
            }
            stats.max_grow_kb = stats.max_grow_kb.max(o.grow_kb);
            stats.max_cpu_ms = stats.max_cpu_ms.max(o.cpu_ms);
        }
    }
}

#[derive(Default)]
struct Stats {
    max_grow_kb: u64,
    max_cpu_ms: u64,
}

pub fn generate(out: &mut Out, tier: &str, seed: u64) {
    if let Some(batch) = tier.strip_prefix("child:") {
        child_main(batch);
    }
    let thorough = tier == "thorough";
    let mut rng = Rng::new(seed);
    let mut stats = Stats::default();

    // ---- string parsers (in process)
    let store = small_store();
    let mut emit0 = |out: &mut Out, which: i64, s: &str, key: &str| {
        let req = l(vec![a(0), a(which), sid(s)]);
        let r = exec_string(which, s, &store);
        let nt = r.nth(0).int() == 1;
        out.case(&req, &[r], nt, &req);
        out.count(key);
    };
    let cur_alpha = ["+", "-", "0", "1", "9", "x", " "];
    for s in strings_over(&cur_alpha, if thorough { 5 } else { 4 }) {
        emit0(out, 0, &s, "cursor_small");
    }
    let bounds: [&str; 22] = [
        "18446744073709551615", "18446744073709551616", "18446744073709551614", "+18446744073709551615", "-18446744073709551615",
        "9223372036854775807", "9223372036854775808", "-9223372036854775807", "-9223372036854775808", "-9223372036854775809",
        "99999999999999999999999999", "-99999999999999999999999999", "000000000000000000000000000000012", "-000000000000000000000000000000012",
        "184467440737095516150", "1844674407370955161", "\u{663}", "1\u{663}", "\u{ff11}", "1_0", "0x10", "1e3",
    ];
    for s in bounds {
        emit0(out, 0, s, "cursor_bounds");
    }
    // long strings with a multi-byte character at every byte position around 10..30
    let mut long_cursors: Vec<String> = Vec::new();
    for sign in ["", "-", "+"] {
        for ch in ["\u{e9}", "\u{20ac}", "\u{1d400}", "x"] {
            for pos in 8..30usize {
                let digits: String = (0..pos).map(|i| (b'0' + ((i + 1) % 10) as u8) as char).collect();
                long_cursors.push(format!("{}{}{}", sign, digits, ch));
                long_cursors.push(format!("{}{}{}12345", sign, digits, ch));
            }
        }
    }
    for s in &long_cursors {
        emit0(out, 0, s, "cursor_long_nonascii");
    }
    for _ in 0..(if thorough { 20000 } else { 3000 }) {
        let n = 1 + rng.below(24);
        let mut s = String::new();
        if rng.chance(1, 3) {
            s.push(*rng.pick(&['-', '+', '-']));
        }
        for _ in 0..n {
            s.push((b'0' + rng.below(10) as u8) as char);
        }
        if rng.chance(1, 20) {
            s.push(*rng.pick(&['x', ' ', '-', '.']));
        }
        emit0(out, 0, &s, "cursor_random");
    }
    let type_words = [
        "annotationstore", "store", "annotation", "annotations", "annotationdataset", "dataset", "annotationset", "annotationdatasets", "datasets", "annotationsets", "data", "annotationdata",
        "datakey", "datakeys", "key", "keys", "datavalue", "value", "values", "resource", "textresource", "resources", "textresources", "textselection", "textselections", "textselectionset",
        "config", "configuration", "annotationsubstore", "substore", "AnnotationStore", "Annotation", "AnnotationDataSet", "AnnotationData", "DataKey", "DataValue", "TextResource", "TextSelection",
        "TextSelectionSet", "Config", "AnnotationSubStore",
    ];
    let variants = |w: &str, rng: &mut Rng| -> Vec<String> {
        let mut v = vec![w.to_string(), w.to_uppercase(), w.to_lowercase(), format!("{} ", w), format!("x{}", w), w.replace('k', "\u{212a}"), w.replace('K', "\u{212a}"), w.replace('i', "\u{130}"), w.replace('e', "\u{c9}"), w.replace('a', "\u{ff21}")];
        let mut m: Vec<char> = w.chars().collect();
        if !m.is_empty() {
            let i = rng.below(m.len());
            m[i] = if m[i].is_uppercase() { m[i].to_ascii_lowercase() } else { m[i].to_ascii_uppercase() };
            v.push(m.iter().collect());
            m.remove(i);
            v.push(m.iter().collect());
        }
        v
    };
    for w in type_words {
        for s in variants(w, &mut rng) {
            emit0(out, 1, &s, "type");
        }
    }
    let kind_words = [
        "ResourceSelector", "resourceselector", "resource", "AnnotationSelector", "annotationselector", "annotation", "TextSelector", "textselector", "text", "DataSetSelector", "datasetselector", "set",
        "annotationset", "dataset", "DataKeySelector", "datakeyselector", "key", "AnnotationDataSelector", "annotationdataselector", "dataselector", "data", "MultiSelector", "multiselector", "multi",
        "CompositeSelector", "compositeselector", "composite", "DirectionalSelector", "directionalselector", "directional", "InternalRangedSelector", "internalrangedselector", "",
    ];
    for w in kind_words {
        for s in variants(w, &mut rng) {
            emit0(out, 2, &s, "kind");
        }
    }
    for w in ["json", "Json", "JSON", "json-compact", "Json-compact", "JSON-compact", "cbor", "CBOR", "Cbor", "csv", "Csv", "CSV", "", "jsoN", "json_compact"] {
        for s in variants(w, &mut rng) {
            emit0(out, 3, &s, "format");
        }
    }
    let id_alpha = ["!", "A", "R", "\u{c9}", "\u{ff21}", "\u{1d400}", "a", "0", "1", "9", "+", "-"];
    for s in strings_over(&id_alpha, if thorough { 4 } else { 3 }) {
        emit0(out, 4, &s, "lookup_small");
    }
    for s in ["!A18446744073709551615", "!A18446744073709551616", "!A99999999999", "!\u{c9}99999999999", "!A4294967296", "!\u{1d400}0", "!A\u{c9}", "!A0\u{c9}", "\u{c9}!A0"] {
        emit0(out, 4, s, "lookup_big");
    }

    // ---- documents (child processes)
    let mut reqs: Vec<(Sx, String)> = Vec::new();
    // (1) annotations arrays: exhaustive small scope
    let ids: Vec<Option<String>> = vec![None, Some("p".into()), Some("!A0".into()), Some("!A1".into()), Some("!A2".into()), Some("!A4".into()), Some("!\u{c9}1".into()), Some("!A".into()), Some("!a1".into()), Some("!R+3".into()), Some("".into())];
    let mut uniq = 0usize;
    let mut fresh = |id: &Option<String>| -> Option<String> {
        // public ids must be distinct within a document
        match id {
            Some(s) if s == "p" => {
                uniq += 1;
                Some(format!("p{}", uniq))
            }
            other => other.clone(),
        }
    };
    for strip in [1i64, 0] {
        for base in [0i64, 1] {
            for i1 in &ids {
                // one element
                for b1 in [true, false] {
                    reqs.push((l(vec![a(1), a(strip), a(base), l(vec![l(vec![elem(&fresh(i1), b1, &[])])])]), "ann_1".into()));
                }
                for i2 in &ids {
                    if i1.is_some() && i1 == i2 && i1.as_deref() != Some("p") && i1.as_deref() != Some("") && (strip == 0 || !i1.as_deref().unwrap_or("").starts_with("!A") || i1.as_deref() == Some("!A")) {
                        continue; // the same public id twice: duplicate handling is not C19's business
                    }
                    // two elements in one array, and one element in each of two arrays
                    reqs.push((l(vec![a(1), a(strip), a(base), l(vec![l(vec![elem(&fresh(i1), true, &[]), elem(&fresh(i2), true, &[])])])]), "ann_2".into()));
                    reqs.push((l(vec![a(1), a(strip), a(base), l(vec![l(vec![elem(&fresh(i1), true, &[])]), l(vec![elem(&fresh(i2), true, &[])])])]), "ann_1_1".into()));
                    if thorough || rng.chance(1, 4) {
                        for i3 in &ids {
                            if (i3.is_some() && (i3 == i1 || i3 == i2)) && i3.as_deref() != Some("p") && i3.as_deref() != Some("") && (strip == 0 || !i3.as_deref().unwrap_or("").starts_with("!A") || i3.as_deref() == Some("!A")) {
                                continue;
                            }
                            reqs.push((l(vec![a(1), a(strip), a(base), l(vec![l(vec![elem(&fresh(i1), true, &[]), elem(&fresh(i2), rng.chance(5, 6), &[])]), l(vec![elem(&fresh(i3), true, &[])])])]), "ann_2_1".into()));
                        }
                    }
                }
            }
        }
    }
    // the same arrays merged into a non-empty store (merge_json_str)
    for strip in [1i64, 0] {
        for i1 in &ids {
            for i2 in &ids {
                reqs.push((l(vec![a(9), a(strip), l(vec![l(vec![elem(&fresh(i1), true, &[]), elem(&fresh(i2), true, &[])])])]), "ann_merge".into()));
            }
        }
    }
    // identifiers with large numbers (memory / allocation failure), annotations and data
    let bigs = ["!A1000000", "!A1500000", "!A99999999999", "!A18446744073709551615", "!A4294967296", "!A4294967295", "!A1073741824", "!A5000", "!A18446744073709551616", "!A+1000000", "!A0001000000"];
    for b in bigs {
        for strip in [1i64, 0] {
            reqs.push((l(vec![a(1), a(strip), a(0), l(vec![l(vec![elem(&Some(b.to_string()), true, &[])])])]), "ann_big".into()));
            reqs.push((l(vec![a(1), a(strip), a(1), l(vec![l(vec![elem(&None, true, &[])]), l(vec![elem(&Some(b.to_string()), true, &[]), elem(&None, true, &[])])])]), "ann_big_second_array".into()));
            reqs.push((l(vec![a(2), a(strip), l(vec![l(vec![l(vec![sid(b), a(1)])])])]), "data_big".into()));
            reqs.push((l(vec![a(2), a(strip), l(vec![l(vec![l(vec![a(-1), a(1)])]), l(vec![l(vec![sid(b), a(1)]), l(vec![a(-1), a(1)])])])]), "data_big_second_array".into()));
            reqs.push((l(vec![a(1), a(strip), a(0), l(vec![l(vec![elem(&Some(b.to_string()), false, &[])])])]), "ann_big_unbuildable".into()));
        }
    }
    // sub-selector kinds of a composite target (the comparator of subselectors())
    for k1 in 0..6i64 {
        for k2 in 0..6i64 {
            reqs.push((l(vec![a(1), a(1), a(1), l(vec![l(vec![elem(&None, true, &[k1, k2])])])]), "ann_kinds_2".into()));
            if thorough {
                for k3 in 0..6i64 {
                    reqs.push((l(vec![a(1), a(1), a(1), l(vec![l(vec![elem(&Some("!A3".into()), true, &[k1, k2, k3])])])]), "ann_kinds_3".into()));
                }
            }
        }
    }
    // (2) data arrays
    let dids: Vec<Option<String>> = vec![None, Some("p".into()), Some("!D0".into()), Some("!D1".into()), Some("!D3".into()), Some("!\u{c9}1".into()), Some("!D".into()), Some("".into())];
    for strip in [1i64, 0] {
        for i1 in &dids {
            for b1 in [true, false] {
                reqs.push((l(vec![a(2), a(strip), l(vec![l(vec![l(vec![id_sx(&fresh(i1)), a(b1 as i64)])])])]), "data_1".into()));
            }
            for i2 in &dids {
                if i1.is_some() && i1 == i2 && i1.as_deref() != Some("p") && i1.as_deref() != Some("") && (strip == 0 || i1.as_deref() == Some("!D")) {
                    continue;
                }
                reqs.push((l(vec![a(2), a(strip), l(vec![l(vec![l(vec![id_sx(&fresh(i1)), a(1)]), l(vec![id_sx(&fresh(i2)), a(1)])])])]), "data_2".into()));
                reqs.push((l(vec![a(2), a(strip), l(vec![l(vec![l(vec![id_sx(&fresh(i1)), a(1)])]), l(vec![l(vec![id_sx(&fresh(i2)), a(1)])])])]), "data_1_1".into()));
            }
        }
    }
    // random longer documents
    for _ in 0..(if thorough { 20000 } else { 300 }) {
        let strip = rng.chance(4, 5) as i64;
        let base = rng.chance(1, 2) as i64;
        let narr = 1 + rng.below(3);
        let mut next = base as usize;
        let mut arrays = Vec::new();
        for _ in 0..narr {
            let n = rng.below(6);
            let mut es = Vec::new();
            for _ in 0..n {
                let id = match rng.below(10) {
                    0..=2 => None,
                    3..=4 => fresh(&Some("p".into())),
                    5..=7 => {
                        // a consistent temporary id, possibly with a gap
                        next += rng.below(3);
                        Some(format!("!A{}", next))
                    }
                    8 => Some(format!("!A{}", rng.below(12))),
                    _ => Some(format!("!{}{}", rng.pick(&["\u{c9}", "a", "A+", "A0", "R"]), rng.below(5))),
                };
                next += 1;
                let kinds: Vec<i64> = if base == 1 && rng.chance(1, 6) { (0..(1 + rng.below(4))).map(|_| rng.below(6) as i64).collect() } else { vec![] };
                es.push(elem(&id, rng.chance(14, 15), &kinds));
            }
            arrays.push(l(es));
        }
        if base == 1 {
            reqs.push((l(vec![a(9), a(strip), l(arrays.clone())]), "ann_merge_random".into()));
        }
        reqs.push((l(vec![a(1), a(strip), a(base), l(arrays)]), "ann_random".into()));
    }
    // (3) CSV rows
    let kinds_simple = ["TextSelector", "AnnotationSelector", "ResourceSelector", "DataSetSelector", "DataKeySelector", "AnnotationDataSelector", "text", "nonsense", ""];
    let row = |c: [&str; 11]| -> Sx { l(std::iter::once(a(3)).chain(c.iter().map(|s| sid(s))).collect()) };
    for k in kinds_simple {
        for (res, ann, dset) in [("r", "A0", "s"), ("", "", ""), ("nope", "nope", "nope"), ("r;r2", "A0", "s")] {
            for (b, e) in [("0", "3"), ("", ""), ("0", ""), ("x", "3"), ("-3", "-0"), ("1;2", "3")] {
                for (key, td) in [("k", "D0"), ("", ""), ("k;k2", "D0;D1")] {
                    reqs.push((row(["X", "D0", "s", k, res, ann, dset, b, e, key, td]), "csv_simple".into()));
                }
            }
        }
        reqs.push((row(["X", "", "s", k, "r", "A0", "s", "0", "3", "k", "D0"]), "csv_nodata".into()));
        reqs.push((row(["", "D0;D1", "s;s", k, "r", "A0", "s", "0", "3", "k", "D0"]), "csv_simple".into()));
    }
    // cursor cells with long non-ASCII garbage
    for (i, c) in long_cursors.iter().enumerate() {
        if !thorough && i % 4 != 0 {
            continue;
        }
        match i % 3 {
            0 => reqs.push((row(["X", "D0", "s", "TextSelector", "r", "", "", c, "3", "", ""]), "csv_cursor_garbage".into())),
            1 => reqs.push((row(["X", "D0", "s", "AnnotationSelector", "", "A0", "", "0", c, "", ""]), "csv_cursor_garbage".into())),
            _ => reqs.push((row(["X", "D0", "s", "CompositeSelector;TextSelector;AnnotationSelector", ";r;", ";;A0", ";;", &format!(";0;{}", c), &format!(";{};3", c), "", ""]), "csv_cursor_garbage".into())),
        }
    }
    let complex = ["CompositeSelector", "MultiSelector", "DirectionalSelector", "multi"];
    let subs = ["TextSelector", "AnnotationSelector", "ResourceSelector", "DataSetSelector", "DataKeySelector", "AnnotationDataSelector", "MultiSelector", "bogus"];
    for c in complex {
        reqs.push((row(["X", "D0", "s", c, "", "", "", "", "", "", ""]), "csv_complex_alone".into()));
        for s1 in subs {
            for s2 in subs {
                if !thorough && c != "CompositeSelector" && rng.chance(2, 3) {
                    continue;
                }
                let kind = format!("{};{};{}", c, s1, s2);
                // complete columns
                reqs.push((row(["X", "D0", "s", &kind, ";r;r2", ";A0;A0", ";s;s", ";0;1", ";3;4", ";k;k2", ";D0;D1"]), "csv_complex_full".into()));
                // missing optional columns / short columns
                reqs.push((row(["X", "D0", "s", &kind, ";r;r2", ";A0;A0", ";s;s", ";0;1", ";3;4", "", ""]), "csv_complex_nokey".into()));
                reqs.push((row(["X", "D0", "s", &kind, ";r;r2", ";A0;A0", ";s;s", ";0;1", "", "k", "D0"]), "csv_complex_noend".into()));
                reqs.push((row(["X", "D0", "s", &kind, "r", "A0", "s", "", "", "k", "D0"]), "csv_complex_short".into()));
                reqs.push((row(["X", "D0", "s", &kind, ";;", ";;", ";;", ";;", ";;", ";;", ";;"]), "csv_complex_empty".into()));
            }
        }
    }
    for _ in 0..(if thorough { 60000 } else { 1500 }) {
        let cell = |rng: &mut Rng, pool: &[&str]| -> String {
            let n = rng.below(4);
            let mut v: Vec<String> = Vec::new();
            for _ in 0..=n {
                v.push(rng.pick(pool).to_string());
            }
            if rng.chance(1, 2) {
                v.truncate(1);
            }
            v.join(";")
        };
        let kindcell = if rng.chance(1, 2) { format!("{};{}", rng.pick(&complex), cell(&mut rng, &subs)) } else { cell(&mut rng, &kinds_simple) };
        let r = row([
            *rng.pick(&["X", "", "!A7"]),
            &cell(&mut rng, &["D0", "D1", "", "nope"]),
            &cell(&mut rng, &["s", "", "nope"]),
            &kindcell,
            &cell(&mut rng, &["r", "r2", "", "nope"]),
            &cell(&mut rng, &["A0", "", "nope"]),
            &cell(&mut rng, &["s", "", "nope"]),
            &cell(&mut rng, &["0", "1", "", "x", "-2", "99"]),
            &cell(&mut rng, &["3", "4", "", "x", "-0", "99"]),
            &cell(&mut rng, &["k", "k2", "", "nope"]),
            &cell(&mut rng, &["D0", "D1", "", "nope"]),
        ]);
        reqs.push((r, "csv_random".into()));
    }
    // (7) targeted: CBOR nesting depth and handles, @include
    for n in [0i64, 1, 2, 10, 64, 100000, 300000] {
        reqs.push((l(vec![a(7), a(0), a(n)]), "cbor_depth".into()));
    }
    {
        let st = base_store(0);
        let nts = st.resource("r").map(|r| r.textselections().count()).unwrap_or(0) as i64;
        for v in [0i64, 1, 2, nts - 1, nts, nts + 1, 23, 24, 255, 256, 65535, 65536, 4294967295] {
            if v >= 0 {
                reqs.push((l(vec![a(7), a(1), a(v), a(nts)]), "cbor_handle".into()));
            }
        }
    }
    reqs.push((l(vec![a(7), a(4), a(0)]), "stdin_include".into()));
    reqs.push((l(vec![a(7), a(4), a(1)]), "stdin_include".into()));
    for w in 0..14i64 {
        reqs.push((l(vec![a(10), a(w)]), "file_references".into()));
    }
    // (13) one data set defined twice: the second definition a permutation / subset / superset / disjoint part
    {
        // global assignment data id -> key: D_i sits under key i % 3
        let def = |keys: &[i64], ids: &[i64]| -> Sx { l(vec![l(keys.iter().map(|k| a(*k)).collect()), l(ids.iter().map(|i| l(vec![a(*i), a(*i % 3)])).collect())]) };
        let firsts: Vec<(Vec<i64>, Vec<i64>)> = vec![(vec![0, 1, 2], vec![0, 1, 2]), (vec![0, 1], vec![0, 1]), (vec![2, 1, 0], vec![2, 0, 1, 3]), (vec![0], vec![]), (vec![], vec![])];
        let seconds: Vec<(Vec<i64>, Vec<i64>)> = vec![
            (vec![0, 1, 2], vec![0, 1, 2]),          // identical
            (vec![2, 1, 0], vec![2, 1, 0]),          // permutation
            (vec![1, 0], vec![1]),                   // subset, other order
            (vec![0, 1, 2], vec![0, 1, 2, 3, 4, 5]), // superset, appended
            (vec![2, 0, 1], vec![5, 4, 3, 2, 1, 0]), // superset, reversed
            (vec![2], vec![5, 8]),                   // disjoint
            (vec![1, 2], vec![4, 7, 5]),             // disjoint, keys partly shared
            (vec![2, 1, 0], vec![]),                 // keys only
            (vec![], vec![]),
        ];
        for mode in 0..5i64 {
            for f in &firsts {
                for sd in &seconds {
                    reqs.push((l(vec![a(13), a(mode), def(&f.0, &f.1), def(&sd.0, &sd.1)]), "dataset_merge".into()));
                }
            }
        }
        for _ in 0..(if thorough { 3000 } else { 200 }) {
            let mut mk = |rng: &mut Rng| -> (Vec<i64>, Vec<i64>) {
                let mut ids: Vec<i64> = (0..9).filter(|_| rng.chance(1, 2)).collect();
                for i in (1..ids.len()).rev() {
                    let j = rng.below(i + 1);
                    ids.swap(i, j);
                }
                let mut keys: Vec<i64> = vec![0, 1, 2];
                for i in (1..3).rev() {
                    let j = rng.below(i + 1);
                    keys.swap(i, j);
                }
                // a definition lists the keys its data needs (some more, in any order)
                let keys: Vec<i64> = keys.into_iter().filter(|k| ids.iter().any(|i| i % 3 == *k) || rng.chance(1, 2)).collect();
                (keys, ids)
            };
            let f = mk(&mut rng);
            let sd = mk(&mut rng);
            reqs.push((l(vec![a(13), a(rng.below(5) as i64), def(&f.0, &f.1), def(&sd.0, &sd.1)]), "dataset_merge_random".into()));
        }
    }
    reqs.push((l(vec![a(14), a(0)]), "with_file_csv".into()));
    reqs.push((l(vec![a(14), a(1)]), "with_file_csv".into()));
    // (11) an annotation selector with offset on annotations of every target kind
    for mode in 0..3i64 {
        for tkind in 0..11i64 {
            for (b, e) in [(0i64, 1i64), (0, 2), (1, 2), (0, 5), (2, 6), (3, 1), (0, 0), (0, 11)] {
                reqs.push((l(vec![a(11), a(mode), a(tkind), a(b), a(e)]), "ann_offset".into()));
            }
            // huge relative cursors (the parent may begin after position 0)
            for (b, e) in [("18446744073709551615", "18446744073709551615"), ("0", "18446744073709551615"), ("18446744073709551615", "1"), ("18446744073709551614", "18446744073709551615"), ("9223372036854775808", "9223372036854775809"), ("1", "9223372036854775807"), ("18446744073709551616", "1"), ("4294967296", "4294967297")] {
                reqs.push((l(vec![a(11), a(mode), a(tkind), sid(b), sid(e)]), "ann_offset_huge".into()));
            }
        }
    }
    // (17) one complex selector over 2..40 sub-selectors of mixed kinds in several arrangements
    {
        let sizes: Vec<usize> = if thorough { (2..=40).collect() } else { vec![2, 3, 7, 20, 21, 22, 25, 32, 33, 40] };
        let patterns: Vec<Vec<i64>> = vec![vec![2, 6, 0], vec![6, 0, 2, 3], vec![0, 1, 2, 3, 4, 5, 6], vec![6, 5, 4, 3, 2, 1, 0], vec![2, 2, 6, 6, 3, 0], vec![6, 3], vec![2, 0], vec![1, 6, 4]];
        for &n in &sizes {
            for pat in &patterns {
                // round robin, and in blocks (all of the first kind, then all of the second, ...)
                let rr: Vec<i64> = (0..n).map(|i| pat[i % pat.len()]).collect();
                let mut blocks: Vec<i64> = rr.clone();
                blocks.sort_by_key(|k| pat.iter().position(|p| p == k).unwrap_or(0));
                let mut rev = blocks.clone();
                rev.reverse();
                for (ai, arr) in [rr, blocks, rev].iter().enumerate() {
                    for mode in 0..3i64 {
                        for ctype in 0..3i64 {
                            if !thorough && (ai + (mode as usize) + (ctype as usize) + n) % 3 != 0 {
                                continue;
                            }
                            reqs.push((l(vec![a(17), a(mode), a(ctype), l(arr.iter().map(|k| a(*k)).collect())]), "many_subselectors".into()));
                        }
                    }
                }
            }
        }
        for _ in 0..(if thorough { 2000 } else { 150 }) {
            let n = 2 + rng.below(39);
            let arr: Vec<Sx> = (0..n).map(|_| a(rng.below(7) as i64)).collect();
            reqs.push((l(vec![a(17), a(rng.below(3) as i64), a(rng.below(2) as i64), l(arr)]), "many_subselectors_random".into()));
        }
    }
    // (16) inline data whose "@id" is the empty string
    for mode in 0..2i64 {
        for n in [1i64, 2, 3, 5] {
            reqs.push((l(vec![a(16), a(mode), a(n)]), "empty_data_id".into()));
        }
    }
    // (8) scaling: n and 4n annotations with inline data
    for (hasid, samekey) in [(0i64, 1i64), (1, 1), (0, 0), (1, 0)] {
        reqs.push((l(vec![a(8), a(if thorough { 12000 } else { 8000 }), a(hasid), a(samekey)]), "scale".into()));
    }
    reqs.push((l(vec![a(7), a(2), a(1)]), "resource_include".into()));
    reqs.push((l(vec![a(7), a(2), a(0)]), "resource_include".into()));
    let chains: Vec<(i64, Vec<i64>)> = vec![
        (-1, vec![]),
        (0, vec![-1]),
        (0, vec![0]),
        (0, vec![1, 0]),
        (0, vec![1, 2, 1]),
        (3, vec![-1]),
        (0, vec![5]),
        (0, (1..=14).chain(std::iter::once(-1)).collect()),
        (0, (1..=15).chain(std::iter::once(-1)).collect()),
        (0, (1..=16).chain(std::iter::once(-1)).collect()),
        (0, (1..=17).chain(std::iter::once(-1)).collect()),
        (0, (1..=30).chain(std::iter::once(-1)).collect()),
    ];
    for (inc, files) in chains {
        reqs.push((l(vec![a(7), a(3), a(inc), l(files.iter().map(|f| a(*f)).collect())]), "dataset_include".into()));
    }
    for _ in 0..(if thorough { 300 } else { 40 }) {
        let n = 1 + rng.below(6);
        let files: Vec<i64> = (0..n).map(|_| rng.range(-1, n as i64)).collect();
        reqs.push((l(vec![a(7), a(3), a(rng.range(-1, n as i64)), l(files.iter().map(|f| a(*f)).collect())]), "dataset_include_random".into()));
    }
    // (4) generic JSON mutations
    let mut cache = Cache::new();
    let wd = workdir();
    std::fs::create_dir_all(&wd).ok();
    for base in [0i64, 1] {
        let nodes = cache.json_tree(base, &wd).count();
        let textlen = cache.json(base, &wd).len();
        for n in 0..nodes {
            for mk in 0..3i64 {
                if base == 0 || thorough || rng.chance(1, 2) {
                    reqs.push((l(vec![a(4), a(base), a(mk), a(n as i64), a(0)]), format!("json_tree_{}", ["delete", "duplicate", "swap"][mk as usize])));
                }
            }
            let nv = if thorough { RETYPE.len() } else { 3 };
            for _ in 0..nv {
                reqs.push((l(vec![a(4), a(base), a(3), a(n as i64), a(rng.below(RETYPE.len()) as i64)]), "json_retype".into()));
            }
            for _ in 0..(if thorough { 6 } else { 2 }) {
                reqs.push((l(vec![a(4), a(base), a(4), a(n as i64), a(rng.below(STRINGS.len()) as i64)]), "json_reference".into()));
                reqs.push((l(vec![a(4), a(base), a(5), a(n as i64), a(rng.below(INTS.len()) as i64)]), "json_integer".into()));
            }
        }
        let step = if thorough { 1 } else { 7 };
        for k in (0..=textlen).step_by(step) {
            reqs.push((l(vec![a(4), a(base), a(6), a(k as i64), a(k as i64)]), "json_truncate".into()));
        }
        for _ in 0..(if thorough { textlen * 8 } else { 600 }) {
            reqs.push((l(vec![a(4), a(base), a(7), a(rng.below(textlen * 8) as i64), a(rng.below(2) as i64)]), "json_bitflip".into()));
        }
    }
    // (5) generic CSV mutations
    for base in [0i64, 1] {
        let files = cache.files(base, "csv", &wd).clone();
        for (fi, (_, content)) in files.iter().enumerate() {
            let len = content.len();
            let step = if thorough { 1 } else { 5 };
            for k in (0..=len).step_by(step) {
                reqs.push((l(vec![a(5), a(base), a(fi as i64), a(0), a(k as i64), a(0)]), "csv_truncate".into()));
            }
            for _ in 0..(if thorough { len * 4 } else { 150 }) {
                reqs.push((l(vec![a(5), a(base), a(fi as i64), a(1), a(rng.below(len.max(1) * 8) as i64), a(0)]), "csv_bitflip".into()));
            }
            for _ in 0..(if thorough { 1500 } else { 150 }) {
                reqs.push((l(vec![a(5), a(base), a(fi as i64), a(2), a(rng.below(400) as i64), a(rng.below(CELLS.len()) as i64)]), "csv_cell".into()));
            }
        }
    }
    // (6) generic CBOR mutations
    for base in [0i64, 1] {
        let files = cache.files(base, "cbor", &wd).clone();
        let len = files.iter().find(|(n, _)| n.ends_with(".cbor")).map(|(_, c)| c.len()).unwrap_or(0);
        let step = if thorough { 1 } else { 3 };
        for k in (0..=len).step_by(step) {
            reqs.push((l(vec![a(6), a(base), a(0), a(k as i64)]), "cbor_truncate".into()));
        }
        if thorough {
            for k in 0..len * 8 {
                reqs.push((l(vec![a(6), a(base), a(1), a(k as i64)]), "cbor_bitflip".into()));
            }
        } else {
            for _ in 0..1500 {
                reqs.push((l(vec![a(6), a(base), a(1), a(rng.below(len.max(1) * 8) as i64)]), "cbor_bitflip".into()));
            }
        }
    }
    // (12) CBOR length headers rewritten
    for base in [0i64, 1] {
        let files = cache.files(base, "cbor", &wd).clone();
        let nh = files.iter().find(|(n, _)| n.ends_with(".cbor")).map(|(_, c)| cbor_headers(c).len()).unwrap_or(0);
        for h in 0..nh {
            for v in 0..20i64 {
                if base == 0 || thorough || rng.chance(1, 3) {
                    reqs.push((l(vec![a(12), a(base), a(h as i64), a(v)]), "cbor_length_header".into()));
                }
            }
        }
    }
    // (15) the same requests under other configurations: every request of the abstract / targeted
    // kinds under one other Config (all variants in turn), a tenth of the generic mutation streams
    // (malformed documents included) with milestones switched off or at every position
    {
        let mut wrapped: Vec<(Sx, String)> = Vec::new();
        let mut turn = 0i64;
        for (r, _) in reqs.iter() {
            let kind = r.nth(0).int();
            let heavy = kind == 8 || (matches!(kind, 1 | 2) && r.to_string().contains("57 57 57 57")) || r.to_string().contains("49 48 48 48 48 48 48") || r.to_string().contains("49 53 48 48 48 48 48");
            if heavy {
                continue;
            }
            match kind {
                1 | 2 | 3 | 7 | 9 | 10 | 11 | 13 | 14 => {
                    if thorough || turn % 3 == 0 {
                        let k = 1 + (turn / 3) % (NCFG - 1);
                        wrapped.push((l(vec![a(15), a(k), r.clone()]), format!("config_{}", k)));
                    }
                    turn += 1;
                }
                4 | 5 | 6 | 12 => {
                    if turn % (if thorough { 3 } else { 10 }) == 0 {
                        let k = *rng.pick(&[1i64, 1, 2, 8, 6, 3]);
                        wrapped.push((l(vec![a(15), a(k), r.clone()]), format!("config_{}", k)));
                    }
                    turn += 1;
                }
                _ => {}
            }
        }
        // every configuration on a well-formed document of each format and on the corpus shapes
        for k in 0..NCFG {
            for r in [
                l(vec![a(4), a(1), a(7), a(0), a(1)]),
                l(vec![a(4), a(1), a(6), a(100000), a(0)]),
                l(vec![a(5), a(1), a(0), a(0), a(100000), a(0)]),
                l(vec![a(6), a(1), a(0), a(100000)]),
                l(vec![a(7), a(2), a(1)]),
                l(vec![a(11), a(0), a(5), a(0), a(5)]),
                l(vec![a(11), a(2), a(5), a(0), a(5)]),
                l(vec![a(11), a(1), a(6), a(0), a(2)]),
                l(vec![a(10), a(99)]),
            ] {
                wrapped.push((l(vec![a(15), a(k), r]), "config_wellformed".into()));
            }
        }
        reqs.extend(wrapped);
    }
    emit_children(out, reqs, &mut stats);
    out.count_n("max_memory_growth_kb_measured", stats.max_grow_kb);
    out.count_n("max_cpu_ms_measured", stats.max_cpu_ms);
}

pub const RULE: &str = "String parsers in process: every string of length <=4 (thorough 5) over {+,-,0,1,9,x,space} and boundary values around 2^63/2^64 for Cursor, every keyword of Type/SelectorKind/DataFormat in case/letter variants (incl. U+212A, U+0130), every string of length <=3 (thorough 4) over {!,A,R,U+C9,U+FF21,U+1D400,a,0,1,9,+,-} through every id lookup. Documents in child processes (ulimit -v 2 GiB, stdin closed, hang = 60 s without progress; memory budget 48 MiB + input/4, cpu budget 1.5 s + 4 us/byte, both measured): annotations/data arrays of <=3 items over 10 identifier shapes x buildable or not x one or two arrays x strip_temp_ids on/off x empty or non-empty store, identifiers with numbers up to 2^64, composite targets over all pairs (thorough triples) of sub-selector kinds, random longer documents; CSV rows: every simple selector kind x reference/offset/key column shapes, complex rows over all pairs of sub-selector kinds with full, missing, short and empty columns, random rows; @include chains and cycles, \"-\" as include, self-referring manifests and other odd file references; the same arrays through merge_json_str; cpu time of n against 4n annotations with inline data (with/without ids, one key/one key each); CBOR nesting depth and out-of-range handles; one complex selector over 2..40 resolvable sub-selectors of all seven kinds (round robin, blocks, reversed, random) in JSON, CSV and annotate_from_file; one data set defined twice (second definition identical / permuted / subset / superset / disjoint, through sub-stores, with_file, merge_json_str, merge_json_file, two set objects in one merged file); with_file of a CSV store; an AnnotationSelector with offset on annotations of all ten target kinds x 8 offsets in JSON, annotate_from_file and CSV; every length header (string/array/map) of the CBOR files rewritten in 20 ways (huge values, 1/2/4/8-byte forms, indefinite, +-1, 0); generic mutations of library-written JSON (delete/duplicate/swap every node, retype, dangling/cyclic/temporary references, extreme integers, truncation, bit flips), CSV (truncation, bit flips, cell replacement in every file) and CBOR (truncation at every (quick: third) byte, bit flips). A third (thorough: all) of the abstract and targeted requests and a tenth (thorough: a third) of the generic mutation requests are repeated under another Config (milestone_interval 0, 1, 2; shrink_to_fit off; generate_ids on; all reverse indices off; use_include off; all of these together), every Config on well-formed documents of each format: the prediction is that of the request under the default Config. Non-trivial: the document loads and the lookups run. distinct = distinct request lines.";

pub const EXHAUSTIVE: bool = true;
