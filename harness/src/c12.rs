//! C12: codepoint <-> UTF-8 byte conversion on resources and sub-selections, under every
//! milestone interval / shrink_to_fit setting and before/after annotations populated the index.
use crate::out::{guard, Out};
use crate::rng::Rng;
use crate::sx::{a, l, text as text_sx, Sx};
use stam::*;

pub struct Ctx {}

fn res_sx(r: Option<Result<usize, StamError>>) -> Sx {
    match r {
        None => l(vec![a(2)]),
        Some(Err(_)) => l(vec![a(0)]),
        Some(Ok(n)) => l(vec![a(1), a(n as i64)]),
    }
}

impl Ctx {
    pub fn new() -> Self {
        Ctx {}
    }
    /// request: (interval shrink text ((b e)...) ((sb se)...)); model input drops `shrink`
    pub fn exec(&self, req: &Sx) -> (Sx, Vec<Sx>, bool) {
        let interval = req.nth(0).int() as usize;
        let shrink = req.nth(1).int() != 0;
        let text = req.nth(2).string();
        let anns: Vec<(usize, usize)> = req.nth(3).list().iter().map(|p| (p.nth(0).int() as usize, p.nth(1).int() as usize)).collect();
        let sels: Vec<(usize, usize)> = req.nth(4).list().iter().map(|p| (p.nth(0).int() as usize, p.nth(1).int() as usize)).collect();
        let cfg = Config::default().with_milestone_interval(interval).with_shrink_to_fit(shrink);
        // variant 1: the resource had another text first (TextResource::with_string twice), then gets this one
        // variant 2: the tuning knobs are set AFTER the resource is in the store (with_config on the
        //            populated store): the index was built with the default interval, answers must not change
        let variant = if req.list().len() > 5 { req.nth(5).int() } else { 0 };
        if variant == 3 {
            // the text comes from a plain-text file and the resource is asked directly, outside any store
            let dir = std::env::temp_dir().join(format!("verif-c12-{}", std::process::id()));
            let _ = std::fs::create_dir_all(&dir);
            let path = dir.join("standalone.txt");
            std::fs::write(&path, text.as_bytes()).unwrap();
            let r = guard(|| TextResource::from_file(path.to_string_lossy().as_ref(), cfg.clone()));
            let _ = std::fs::remove_file(&path);
            let _ = std::fs::remove_dir(&dir);
            let n = text.chars().count();
            let nb = text.len();
            let mut outs = Vec::new();
            match r {
                Some(Ok(res)) => {
                    for p in 0..n + 3 {
                        outs.push(res_sx(guard(|| res.utf8byte(p))));
                    }
                    for b in 0..nb + 3 {
                        outs.push(res_sx(guard(|| res.utf8byte_to_charpos(b))));
                    }
                }
                _ => outs.push(l(vec![a(2)])),
            }
            let input = l(vec![req.nth(0).clone(), req.nth(2).clone(), l(vec![]), l(vec![])]);
            return (input, outs, text.len() > n);
        }
        let replaced = variant == 1;
        // variant 4: as variant 2, but the configuration arrives after the ANNOTATIONS as well
        // (AnnotationStore::set_config on the annotated store)
        let mut store = if variant == 4 {
            AnnotationStore::default()
                .with_id("c12")
                .with_resource(TextResourceBuilder::new().with_id("r").with_text(text.clone()))
                .unwrap()
        } else if variant == 2 {
            AnnotationStore::default()
                .with_id("c12")
                .with_resource(TextResourceBuilder::new().with_id("r").with_text(text.clone()))
                .unwrap()
                .with_config(cfg.clone())
        } else if replaced {
            let other: String = "x\u{e9}\u{1f600}\u{4e2d} ".chars().cycle().take(37).collect();
            let resource = TextResource::new("r", cfg.clone()).with_string(other).with_string(text.clone());
            let mut st = AnnotationStore::new(cfg.clone()).with_id("c12");
            st.insert(resource).unwrap();
            st
        } else {
            AnnotationStore::new(cfg.clone())
                .with_id("c12")
                .with_resource(TextResourceBuilder::new().with_id("r").with_text(text.clone()))
                .unwrap()
        };
        // the ranges that became known selections (decided here, not by asking the library later)
        let mut known: Vec<(usize, usize)> = Vec::new();
        for (b, e) in &anns {
            let r = guard(|| {
                store
                    .annotate(
                        AnnotationBuilder::new()
                            .with_target(SelectorBuilder::textselector("r", Offset::simple(*b, *e)))
                            .with_data("s", "k", "v"),
                    )
                    .is_ok()
            });
            if r == Some(true) {
                known.push((*b, *e));
            }
        }
        if variant == 4 {
            store.set_config(cfg.clone());
        }
        if shrink {
            store.shrink_to_fit(true);
        }
        let n = text.chars().count();
        let nb = text.len();
        let res = store.resource("r").unwrap();
        let mut outs = Vec::new();
        for p in 0..n + 3 {
            outs.push(res_sx(guard(|| res.utf8byte(p))));
        }
        for b in 0..nb + 3 {
            outs.push(res_sx(guard(|| res.utf8byte_to_charpos(b))));
        }
        // the model is given every selection once for the ResultTextSelection API and, when the
        // selection is known to the store (an annotation points at it), once more for the same
        // questions through ResultItem<TextSelection>
        let mut model_sels = Vec::new();
        for (sb, se) in &sels {
            let ts = res.textselection(&Offset::simple(*sb, *se)).unwrap();
            let st: String = text.chars().skip(*sb).take(se - sb).collect();
            model_sels.push(l(vec![a(*sb as i64), a(*se as i64)]));
            for p in 0..(se - sb) + 3 {
                outs.push(res_sx(guard(|| ts.utf8byte(p))));
            }
            for b in 0..st.len() + 3 {
                outs.push(res_sx(guard(|| ts.utf8byte_to_charpos(b))));
            }
            outs.push(guard(|| text_sx(ts.text())).unwrap_or_else(|| l(vec![a(-2)])));
            let k = ((se - sb) + 2).min(5);
            for x in 0..k {
                for y in 0..k {
                    outs.push(match guard(|| ts.text_by_offset(&Offset::simple(x, y)).map(|s| s.to_string())) {
                        None => l(vec![a(2)]),
                        Some(Err(_)) => l(vec![a(0)]),
                        Some(Ok(s)) => l(vec![a(1), text_sx(&s)]),
                    });
                }
            }
            let expected_bound = known.contains(&(*sb, *se));
            if expected_bound {
                model_sels.push(l(vec![a(*sb as i64), a(*se as i64)]));
            }
            if expected_bound && ts.as_resultitem().is_none() {
                // an annotated range the resource no longer knows: the outputs of the item are missing
                outs.push(l(vec![a(7)]));
            }
            if let Some(item) = ts.as_resultitem() {
                if !expected_bound {
                    outs.push(l(vec![a(8)]));
                }
                for p in 0..(se - sb) + 3 {
                    outs.push(res_sx(guard(|| item.utf8byte(p))));
                }
                for b in 0..st.len() + 3 {
                    outs.push(res_sx(guard(|| item.utf8byte_to_charpos(b))));
                }
                outs.push(guard(|| text_sx(item.text())).unwrap_or_else(|| l(vec![a(-2)])));
                for x in 0..k {
                    for y in 0..k {
                        outs.push(match guard(|| item.text_by_offset(&Offset::simple(x, y)).map(|s| s.to_string())) {
                            None => l(vec![a(2)]),
                            Some(Err(_)) => l(vec![a(0)]),
                            Some(Ok(s)) => l(vec![a(1), text_sx(&s)]),
                        });
                    }
                }
            }
        }
        // the model is told the interval the index was built with
        let built_with = if variant == 2 || variant == 4 { a(100) } else { req.nth(0).clone() };
        let input = l(vec![built_with, req.nth(2).clone(), req.nth(3).clone(), l(model_sels)]);
        (input, outs, text.len() > n)
    }
}

pub fn generate(out: &mut Out, tier: &str, seed: u64) {
    let thorough = tier == "thorough";
    let ctx = Ctx::new();
    let mut rng = Rng::new(seed);
    let alphabet: Vec<char> = vec!['a', 'z', ' ', '\u{e9}', '\u{3b1}', '\u{20ac}', '\u{4e2d}', '\u{1f600}', '\u{10348}'];
    let intervals = [0usize, 1, 2, 3, 7, 100];
    let ntexts = if thorough { 6000 } else { 150 };
    let maxlen = if thorough { 16 } else { 12 };
    for ti in 0..ntexts {
        let len = if ti < 13 { ti.min(maxlen) } else { rng.below(maxlen + 1) };
        let text: String = (0..len).map(|_| *rng.pick(&alphabet)).collect();
        let n = len;
        // annotation ranges to populate the index, sub-selections to probe
        let mut anns = Vec::new();
        for _ in 0..rng.below(5) {
            let b = rng.below(n + 1);
            let e = b + rng.below(n - b + 1);
            anns.push(l(vec![a(b as i64), a(e as i64)]));
        }
        let mut sels = Vec::new();
        if !thorough {
            for _ in 0..3 {
                let b = rng.below(n + 1);
                let e = b + rng.below(n - b + 1);
                sels.push(l(vec![a(b as i64), a(e as i64)]));
            }
        } else {
            for b in 0..=n {
                for e in b..=n {
                    if rng.chance(1, 3) {
                        sels.push(l(vec![a(b as i64), a(e as i64)]));
                    }
                }
            }
        }
        // the annotated ranges themselves are probed too (known selections)
        for x in anns.iter().take(2) {
            sels.push(x.clone());
        }
        for interval in intervals.iter() {
            for shrink in [0, 1] {
                for with_anns in [false, true] {
                    let req = l(vec![
                        a(*interval as i64),
                        a(shrink),
                        text_sx(&text),
                        if with_anns { l(anns.clone()) } else { l(vec![]) },
                        l(sels.clone()),
                        a(((ti + shrink as usize) % 5) as i64),
                    ]);
                    // a panic while the store is built (none in the model) shows as a case whose
                    // outputs are missing, with this request as the failing input
                    let (i, o, nt) = guard(|| ctx.exec(&req)).unwrap_or_else(|| {
                        (l(vec![req.nth(0).clone(), req.nth(2).clone(), req.nth(3).clone(), l(vec![])]), vec![l(vec![a(2)])], true)
                    });
                    out.case(&i, &o, nt, &req);
                    out.count(&format!("interval{}", interval));
                }
            }
        }
    }
}

pub const RULE: &str = "texts of length 0..=12 (thorough 16) over an alphabet with 1-, 2-, 3- and 4-byte characters; every codepoint position 0..=len+2 and every byte offset 0..=bytes+2 on the resource, and the relative conversions + text on sub-selections (3 random ones per text; thorough: a third of all sub-ranges), each under milestone_interval in {0,1,2,3,7,100} x shrink_to_fit on/off x before/after random annotations populated the position index; the annotated ranges are probed through ResultItem<TextSelection> as well; in a fifth of the cases the resource had another (37-codepoint, mixed) text first and got this one by a second with_string(); in another fifth the configuration is given to the store after the resource was added (with_config on the populated store); in a fifth the configuration is set on the store after the annotations were made (set_config); in a fifth the text is read from a plain-text file by TextResource::from_file and the resource is asked on its own, outside any store. One evaluation = one conversion. Non-trivial = text contains a multi-byte character; distinct = distinct (interval, text, annotations, selections) inputs.";

pub const EXHAUSTIVE: bool = false;
