//! C12: codepoint <-> UTF-8 byte conversion on resources and sub-selections, under every
//! milestone interval / shrink_to_fit setting and before/after annotations populated the index.
use crate::out::{guard, Out};
use crate::rng::Rng;
use crate::sx::{a, l, text as text_sx, Sx};
use stam::*;

pub struct Ctx {}

fn res_sx(r: Option<Result<usize, StamError>>) -> Sx {
    match r {
        None => l(vec![a(2)]),
        Some(Err(_)) => l(vec![a(0)]),
        Some(Ok(n)) => l(vec![a(1), a(n as i64)]),
    }
}

impl Ctx {
    pub fn new() -> Self {
        Ctx {}
    }
    /// request: (interval shrink text ((b e)...) ((sb se)...)); model input drops `shrink`
    pub fn exec(&self, req: &Sx) -> (Sx, Vec<Sx>, bool) {
        let interval = req.nth(0).int() as usize;
        let shrink = req.nth(1).int() != 0;
        let text = req.nth(2).string();
        let anns: Vec<(usize, usize)> = req.nth(3).list().iter().map(|p| (p.nth(0).int() as usize, p.nth(1).int() as usize)).collect();
        let sels: Vec<(usize, usize)> = req.nth(4).list().iter().map(|p| (p.nth(0).int() as usize, p.nth(1).int() as usize)).collect();
        let cfg = Config::default().with_milestone_interval(interval).with_shrink_to_fit(shrink);
        let mut store = AnnotationStore::new(cfg)
            .with_id("c12")
            .with_resource(TextResourceBuilder::new().with_id("r").with_text(text.clone()))
            .unwrap();
        for (b, e) in &anns {
            let _ = guard(|| {
                store.annotate(
                    AnnotationBuilder::new()
                        .with_target(SelectorBuilder::textselector("r", Offset::simple(*b, *e)))
                        .with_data("s", "k", "v"),
                )
            });
        }
        if shrink {
            store.shrink_to_fit(true);
        }
        let n = text.chars().count();
        let nb = text.len();
        let res = store.resource("r").unwrap();
        let mut outs = Vec::new();
        for p in 0..n + 3 {
            outs.push(res_sx(guard(|| res.utf8byte(p))));
        }
        for b in 0..nb + 3 {
            outs.push(res_sx(guard(|| res.utf8byte_to_charpos(b))));
        }
        for (sb, se) in &sels {
            let ts = res.textselection(&Offset::simple(*sb, *se)).unwrap();
            let st: String = text.chars().skip(*sb).take(se - sb).collect();
            for p in 0..(se - sb) + 3 {
                outs.push(res_sx(guard(|| ts.utf8byte(p))));
            }
            for b in 0..st.len() + 3 {
                outs.push(res_sx(guard(|| ts.utf8byte_to_charpos(b))));
            }
            outs.push(guard(|| text_sx(ts.text())).unwrap_or_else(|| l(vec![a(-2)])));
            let k = ((se - sb) + 2).min(5);
            for x in 0..k {
                for y in 0..k {
                    outs.push(match guard(|| ts.text_by_offset(&Offset::simple(x, y)).map(|s| s.to_string())) {
                        None => l(vec![a(2)]),
                        Some(Err(_)) => l(vec![a(0)]),
                        Some(Ok(s)) => l(vec![a(1), text_sx(&s)]),
                    });
                }
            }
        }
        let input = l(vec![req.nth(0).clone(), req.nth(2).clone(), req.nth(3).clone(), req.nth(4).clone()]);
        (input, outs, text.len() > n)
    }
}

pub fn generate(out: &mut Out, tier: &str, seed: u64) {
    let thorough = tier == "thorough";
    let ctx = Ctx::new();
    let mut rng = Rng::new(seed);
    let alphabet: Vec<char> = vec!['a', 'z', ' ', '\u{e9}', '\u{3b1}', '\u{20ac}', '\u{4e2d}', '\u{1f600}', '\u{10348}'];
    let intervals = [0usize, 1, 2, 3, 7, 100];
    let ntexts = if thorough { 6000 } else { 150 };
    let maxlen = if thorough { 16 } else { 12 };
    for ti in 0..ntexts {
        let len = if ti < 13 { ti.min(maxlen) } else { rng.below(maxlen + 1) };
        let text: String = (0..len).map(|_| *rng.pick(&alphabet)).collect();
        let n = len;
        // annotation ranges to populate the index, sub-selections to probe
        let mut anns = Vec::new();
        for _ in 0..rng.below(5) {
            let b = rng.below(n + 1);
            let e = b + rng.below(n - b + 1);
            anns.push(l(vec![a(b as i64), a(e as i64)]));
        }
        let mut sels = Vec::new();
        if !thorough {
            for _ in 0..3 {
                let b = rng.below(n + 1);
                let e = b + rng.below(n - b + 1);
                sels.push(l(vec![a(b as i64), a(e as i64)]));
            }
        } else {
            for b in 0..=n {
                for e in b..=n {
                    if rng.chance(1, 3) {
                        sels.push(l(vec![a(b as i64), a(e as i64)]));
                    }
                }
            }
        }
        for interval in intervals.iter() {
            for shrink in [0, 1] {
                for with_anns in [false, true] {
                    let req = l(vec![
                        a(*interval as i64),
                        a(shrink),
                        text_sx(&text),
                        if with_anns { l(anns.clone()) } else { l(vec![]) },
                        l(sels.clone()),
                    ]);
                    let (i, o, nt) = ctx.exec(&req);
                    out.case(&i, &o, nt, &req);
                    out.count(&format!("interval{}", interval));
                }
            }
        }
    }
}

pub const RULE: &str = "texts of length 0..=12 (thorough 16) over an alphabet with 1-, 2-, 3- and 4-byte characters; every codepoint position 0..=len+2 and every byte offset 0..=bytes+2 on the resource, and the relative conversions + text on sub-selections (3 random ones per text; thorough: a third of all sub-ranges), each under milestone_interval in {0,1,2,3,7,100} x shrink_to_fit on/off x before/after random annotations populated the position index. One evaluation = one conversion. Non-trivial = text contains a multi-byte character; distinct = distinct (interval, text, annotations, selections) inputs.";

pub const EXHAUSTIVE: bool = false;
