//! Shared parts of the per-property harness binaries (src/bin/Cxx.rs, generated).
pub mod out;
pub mod rng;
pub mod storegen;
pub mod sx;

use std::io::BufRead;

/// harness gen <tier> <seed> <cases-out> <stats-out>
/// harness replay <requests-file> <cases-out> <stats-out>
pub fn run_main(
    replay: impl Fn(&[sx::Sx], &mut out::Out),
    generate: impl Fn(&mut out::Out, &str, u64) -> (&'static str, bool),
) {
    let args: Vec<String> = std::env::args().collect();
    if args.len() < 5 {
        eprintln!("usage: <bin> gen <tier> <seed> <cases> <stats> | <bin> replay <requests> <cases> <stats>");
        std::process::exit(2);
    }
    std::panic::set_hook(Box::new(|_| {}));
    let mode = args[1].as_str();
    if mode == "replay" {
        let mut out = out::Out::new(&args[3], &args[4]);
        let f = std::io::BufReader::new(std::fs::File::open(&args[2]).expect("requests file"));
        let reqs: Vec<sx::Sx> = f
            .lines()
            .filter_map(|l| l.ok())
            .filter(|l| !l.trim().is_empty() && !l.starts_with('#'))
            .filter_map(|l| sx::parse(&l))
            .collect();
        replay(&reqs, &mut out);
        out.finish("replay of stored requests", false);
        return;
    }
    let tier = args[2].as_str();
    let seed: u64 = args[3].parse().unwrap_or(0);
    let mut out = out::Out::new(&args[4], &args[5]);
    let (rule, exhaustive) = generate(&mut out, tier, seed);
    out.finish(rule, exhaustive);
}
