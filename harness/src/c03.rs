//! C03: lookups by string (public ids, temporary ids, arbitrary Unicode) after a history,
//! optionally followed by strip_annotation_ids / strip_data_ids / reindex.
use crate::out::{guard, Out};
use crate::rng::Rng;
use crate::storegen::{apply, gen_history, new_store, GenCfg};
use crate::sx::{a, l, nats, text, Sx};
use stam::*;

pub struct Ctx {}

const DEAD: Sx = Sx::A(-2);

fn opt(o: Option<usize>) -> Sx {
    match o {
        Some(h) => nats(vec![h]),
        None => nats(Vec::<usize>::new()),
    }
}

fn lookups(store: &AnnotationStore, s: &str) -> Sx {
    guard(|| {
        let sets = (0..store.datasets_len())
            .map(|h| match store.dataset(AnnotationDataSetHandle::new(h)) {
                None => DEAD,
                Some(set) => l(vec![opt(set.key(s).map(|k| k.handle().as_usize())), opt(set.annotationdata(s).map(|d| d.handle().as_usize()))]),
            })
            .collect();
        l(vec![
            opt(store.annotation(s).map(|x| x.handle().as_usize())),
            opt(store.resource(s).map(|x| x.handle().as_usize())),
            opt(store.dataset(s).map(|x| x.handle().as_usize())),
            l(sets),
        ])
    })
    .unwrap_or_else(|| l(vec![a(-1)]))
}

impl Ctx {
    pub fn new() -> Self {
        crate::storegen::BARE_KEYS.store(true, std::sync::atomic::Ordering::Relaxed);
        crate::storegen::BANG_NAMES.store(true, std::sync::atomic::Ordering::Relaxed);
        Ctx {}
    }
    pub fn exec(&self, req: &Sx) -> (Sx, Vec<Sx>, bool) {
        // variant 1: the store gets strip_temp_ids(false) through with_config() while still empty:
        // strings in temporary-id syntax are then ordinary strings, for every kind
        let plain = req.list().len() > 3 && req.nth(3).int() == 1;
        let mut store = if plain {
            AnnotationStore::default().with_config(Config::default().with_generate_ids(false).with_debug(false).with_strip_temp_ids(false))
        } else {
            new_store()
        };
        crate::storegen::NO_TEMP_REFS.store(plain, std::sync::atomic::Ordering::Relaxed);
        for op in req.nth(0).list() {
            let _ = apply(&mut store, op);
        }
        crate::storegen::NO_TEMP_REFS.store(false, std::sync::atomic::Ordering::Relaxed);
        let store = match req.nth(1).int() {
            0 => Some(store),
            1 => guard(move || {
                store.strip_annotation_ids();
                store
            }),
            2 => guard(move || {
                store.strip_data_ids();
                store
            }),
            _ => guard(move || store.reindex()),
        };
        let strings = req.nth(2).list();
        let outs: Vec<Sx> = match &store {
            Some(st) => strings.iter().map(|s| lookups(st, &s.string())).collect(),
            None => strings.iter().map(|_| l(vec![a(-1)])).collect(),
        };
        let nt = store.as_ref().map(|s| s.annotations_len() > 0).unwrap_or(true);
        (req.clone(), outs, nt)
    }
}

/// the lookup strings: ids in use, temporary ids of every kind and shape, arbitrary Unicode
pub fn string_pool(rng: &mut Rng) -> Vec<String> {
    let mut v: Vec<String> = Vec::new();
    for t in 0..6 {
        for p in ["a", "r", "s", "k", "d"] {
            v.push(format!("{}{}", p, t));
        }
    }
    for letter in ["A", "R", "S", "K", "D", "T", "Z", "a", "É", "𝔸", "1", " "] {
        for n in ["0", "1", "2", "3", "5", "9", "01", "+1", "-1", "", " 1", "1 ", "1a", "65535", "65536", "65537", "4294967295", "4294967296", "4294967297", "18446744073709551615", "18446744073709551616", "99999999999999999999999", "١"] {
            v.push(format!("!{}{}", letter, n));
        }
    }
    // tokens 4 and 5 carry ids that begin like a temporary id of their own kind (and their near misses)
    for letter in ["A", "R", "S", "K", "D"] {
        for n in ["4", "5", "3", "04", "", "4 ", "45"] {
            v.push(format!("!{}x{}", letter, n));
        }
    }
    for s2 in ["!ax4", "!Bx4", "!A x4", "!Ax+4", "a4", "r5", "s4", "k5", "d4"] {
        v.push(s2.to_string());
    }
    for s in ["", "!", "!!", "!A", "a", "a00", "a+1", "A0", "default-annotationset", "é", "!😀1", "\u{0}", "r0 ", " r0", "s0\n"] {
        v.push(s.to_string());
    }
    // a few random strings over a small alphabet
    let alpha: Vec<char> = "!ARSKDars019+ é".chars().collect();
    for _ in 0..25 {
        let n = rng.below(6);
        v.push((0..n).map(|_| *rng.pick(&alpha)).collect());
    }
    v
}

pub fn generate(out: &mut Out, tier: &str, seed: u64) {
    let thorough = tier == "thorough";
    let ctx = Ctx::new();
    let mut rng = Rng::new(seed ^ 0xC03);
    let n = if thorough { 100000 } else { 700 };
    for i in 0..n {
        let cfg = GenCfg { max_ops: if i % 4 == 0 { 40 } else { 14 }, removals: 5, invalid: 15, values: false };
        let ops = gen_history(&mut rng, &cfg);
        let tail = match i % 5 {
            0 | 1 => 0,
            2 => 1,
            3 => 2,
            _ => 3,
        };
        out.count(["tail_none", "tail_strip_annotation_ids", "tail_strip_data_ids", "tail_reindex"][tail]);
        let strings = string_pool(&mut rng);
        let req = l(vec![l(ops), a(tail as i64), l(strings.iter().map(|s| text(s)).collect()), a(if i % 4 == 3 { 1 } else { 0 })]);
        let (i2, o, nt) = ctx.exec(&req);
        out.case(&i2, &o, nt, &req);
    }
}

pub const RULE: &str = "seeded random histories as in C01/C02 (adds with duplicate ids, id-less items, removals), optionally followed by strip_annotation_ids, strip_data_ids or reindex (compaction); then ~380 lookup strings (the ids of tokens 4 and 5 begin like a temporary id of their own kind: '!Ax4', '!Rx5', ...): every id token in use or removed for each kind, '!X<n>' for 12 letters (the five kind letters, other capitals, lower case, multi-byte and non-BMP capitals, digit, space) x 23 numerals (small, leading zero, signs, spaces, trailing junk, empty, around 2^16, 2^32, 2^64 and beyond, non-ASCII digits), degenerate strings, arbitrary Unicode and random strings; each looked up through annotation(), resource(), dataset() and in every dataset key(), annotationdata(), under catch_unwind. One evaluation = one string (all kinds). distinct = distinct histories.";
pub const EXHAUSTIVE: bool = false;
