//! Shared by the store properties (C01 C02 C03 C10 C14 …): executing an encoded history on the
//! real library through its public API, observing every item, generating histories.
//! Encoding of operations: see coq/Run/StoreRun.v.
use crate::out::guard;
use crate::rng::Rng;
use crate::sx::{a, l, nats, Sx};
use stam::*;

pub const ID_TOKENS: usize = 10;

/// C03 only (set by its Ctx::new): the ids of tokens 4 and 5 begin like a temporary id of their own
/// kind without being one ("!Ax4", "!Rx5", ...): legal public identifiers that must resolve like any other
pub static BANG_NAMES: std::sync::atomic::AtomicBool = std::sync::atomic::AtomicBool::new(false);
fn bang(t: i64) -> bool {
    (t == 4 || t == 5) && BANG_NAMES.load(std::sync::atomic::Ordering::Relaxed)
}
fn name(lower: char, upper: char, t: i64) -> String {
    if bang(t) {
        format!("!{}x{}", upper, t)
    } else {
        format!("{}{}", lower, t)
    }
}

pub fn rid(t: i64) -> String {
    name('r', 'R', t)
}
/// token of the dataset the library creates when data names no (resolvable) set
pub const DEFAULT_SET_TOKEN: i64 = 77;
pub fn sid(t: i64) -> String {
    if t == DEFAULT_SET_TOKEN {
        "default-annotationset".to_string()
    } else {
        name('s', 'S', t)
    }
}
pub fn aid(t: i64) -> String {
    name('a', 'A', t)
}
pub fn kid(t: i64) -> String {
    name('k', 'K', t)
}
pub fn did(t: i64) -> String {
    name('d', 'D', t)
}
fn tok_of(id: Option<&str>, prefix: char) -> Sx {
    match id {
        Some("default-annotationset") => Sx::A(DEFAULT_SET_TOKEN),
        Some(s) if s.starts_with('!') && s.len() > 3 && s[1..].starts_with(prefix.to_ascii_uppercase()) && s[2..].starts_with('x') => {
            s[3..].parse::<i64>().ok().filter(|t| bang(*t)).map(Sx::A).unwrap_or(Sx::A(-3))
        }
        Some(s) if s.starts_with(prefix) => s[1..].parse::<i64>().ok().filter(|t| !bang(*t)).map(Sx::A).unwrap_or(Sx::A(-3)),
        Some(_) => Sx::A(-3),
        None => Sx::A(-1),
    }
}

/// every by-handle reference (1 h) at the top level of a removal becomes (2 h)
fn temp_refs(op: Sx) -> Sx {
    l(op.list().iter().map(|x| match x {
        Sx::L(v) if v.len() == 2 && v[0].int() == 1 => l(vec![a(2), v[1].clone()]),
        other => other.clone(),
    }).collect())
}

/// text of a resource: determined by its length (mixed 1-4 byte codepoints)
pub fn text_of_len(n: usize) -> String {
    const ALPHA: [char; 7] = ['a', 'é', ' ', '漢', 'b', '😀', 'c'];
    (0..n).map(|i| ALPHA[i % ALPHA.len()]).collect()
}

pub fn cursor(x: &Sx) -> Cursor {
    if x.nth(0).int() == 0 {
        Cursor::BeginAligned(x.nth(1).int() as usize)
    } else {
        Cursor::EndAligned(x.nth(1).int() as isize)
    }
}

/// set while a store configured with strip_temp_ids(false) is exercised (C03): references of kind 2
/// go by handle, because temporary ids do not resolve there
/// set by the store properties whose model knows operation 9 (a key declared without data): the
/// generator then emits it
pub static BARE_KEYS: std::sync::atomic::AtomicBool = std::sync::atomic::AtomicBool::new(false);
pub static NO_TEMP_REFS: std::sync::atomic::AtomicBool = std::sync::atomic::AtomicBool::new(false);
fn temp_refs_on() -> bool {
    !NO_TEMP_REFS.load(std::sync::atomic::Ordering::Relaxed)
}

/// C10 only (set by its Ctx::new): the float codes 999 and -999 stand for the doubles directly
/// below 1.0 and above -1.0 (1.1e-16 away: distinct floats that an epsilon comparison would take
/// for 1.0 / -1.0; the model orders them between 0.5 and 1.0 like 0.999)
pub static NEAR_ONE: std::sync::atomic::AtomicBool = std::sync::atomic::AtomicBool::new(false);
pub fn fix_to_f64(z: i64) -> f64 {
    if NEAR_ONE.load(std::sync::atomic::Ordering::Relaxed) && (z == 999 || z == -999) {
        let below_one = f64::from_bits(1.0f64.to_bits() - 1);
        if z > 0 { below_one } else { -below_one }
    } else {
        z as f64 / 1000.0
    }
}
fn f64_to_fix(f: f64) -> i64 {
    let below_one = f64::from_bits(1.0f64.to_bits() - 1);
    if NEAR_ONE.load(std::sync::atomic::Ordering::Relaxed) && f.abs() == below_one {
        if f > 0.0 { 999 } else { -999 }
    } else {
        (f * 1000.0).round() as i64
    }
}

pub fn value(x: &Sx) -> DataValue {
    match x.nth(0).int() {
        0 => DataValue::Null,
        1 => DataValue::Bool(x.nth(1).int() != 0),
        2 => DataValue::Int(x.nth(1).int() as isize),
        3 => DataValue::Float(fix_to_f64(x.nth(1).int())),
        4 => DataValue::String(x.list()[1..].iter().filter_map(|c| char::from_u32(c.int() as u32)).collect()),
        _ => DataValue::List(x.list()[1..].iter().map(value).collect()),
    }
}
pub fn value_sx(v: &DataValue) -> Sx {
    match v {
        DataValue::Null => l(vec![a(0)]),
        DataValue::Bool(b) => l(vec![a(1), a(*b as i64)]),
        DataValue::Int(i) => l(vec![a(2), a(*i as i64)]),
        DataValue::Float(f) => l(vec![a(3), a(f64_to_fix(*f))]),
        DataValue::String(s) => {
            let mut v = vec![a(4)];
            v.extend(s.chars().map(|c| a(c as u32 as i64)));
            l(v)
        }
        DataValue::List(items) => {
            let mut v = vec![a(5)];
            v.extend(items.iter().map(value_sx));
            l(v)
        }
        _ => l(vec![a(9)]),
    }
}

fn res_item<'a>(x: &Sx) -> BuildItem<'a, TextResource> {
    if x.nth(0).int() == 0 {
        BuildItem::Id(rid(x.nth(1).int()))
    } else {
        BuildItem::Handle(TextResourceHandle::new(x.nth(1).int() as usize))
    }
}
fn ann_item<'a>(x: &Sx) -> BuildItem<'a, Annotation> {
    if x.nth(0).int() == 0 {
        BuildItem::Id(aid(x.nth(1).int()))
    } else {
        BuildItem::Handle(AnnotationHandle::new(x.nth(1).int() as usize))
    }
}
fn set_item<'a>(x: &Sx) -> BuildItem<'a, AnnotationDataSet> {
    if x.nth(0).int() == 0 {
        BuildItem::Id(sid(x.nth(1).int()))
    } else {
        BuildItem::Handle(AnnotationDataSetHandle::new(x.nth(1).int() as usize))
    }
}
/// reference kind 2 = by temporary id ("!S3") when the item is alive, else as kind 1 (by handle): a
/// temporary id of a dead slot is just an unknown id, which the model does not distinguish
fn temp_set<'a>(store: &AnnotationStore, x: &Sx) -> BuildItem<'a, AnnotationDataSet> {
    if x.nth(0).int() == 2 && temp_refs_on() && store.dataset(AnnotationDataSetHandle::new(x.nth(1).int() as usize)).is_some() {
        BuildItem::Id(format!("!S{}", x.nth(1).int()))
    } else {
        set_item(x)
    }
}
fn key_item<'a>(x: &Sx) -> BuildItem<'a, DataKey> {
    match x {
        Sx::A(_) => BuildItem::None,
        _ => {
            if x.nth(0).int() == 0 {
                BuildItem::Id(kid(x.nth(1).int()))
            } else {
                BuildItem::Handle(DataKeyHandle::new(x.nth(1).int() as usize))
            }
        }
    }
}
fn data_item<'a>(x: &Sx) -> BuildItem<'a, AnnotationData> {
    match x {
        Sx::A(_) => BuildItem::None,
        _ => {
            if x.nth(0).int() == 0 {
                BuildItem::Id(did(x.nth(1).int()))
            } else {
                BuildItem::Handle(AnnotationDataHandle::new(x.nth(1).int() as usize))
            }
        }
    }
}

pub fn dbuild<'a>(x: &Sx) -> AnnotationDataBuilder<'a> {
    AnnotationDataBuilder::new()
        .with_dataset(set_item(x.nth(0)))
        .with_id(data_item(x.nth(1)))
        .with_key(key_item(x.nth(2)))
        .with_value(value(x.nth(3)))
}

pub fn sbuild<'a>(x: &Sx) -> SelectorBuilder<'a> {
    match x.nth(0).int() {
        0 => SelectorBuilder::TextSelector(res_item(x.nth(1)), Offset::new(cursor(x.nth(2)), cursor(x.nth(3)))),
        1 => SelectorBuilder::AnnotationSelector(ann_item(x.nth(1)), None),
        2 => SelectorBuilder::AnnotationSelector(ann_item(x.nth(1)), Some(Offset::new(cursor(x.nth(2)), cursor(x.nth(3))))),
        3 => SelectorBuilder::ResourceSelector(res_item(x.nth(1))),
        4 => SelectorBuilder::DataSetSelector(set_item(x.nth(1))),
        5 => SelectorBuilder::DataKeySelector(set_item(x.nth(1)), key_item(x.nth(2))),
        6 => SelectorBuilder::AnnotationDataSelector(set_item(x.nth(1)), data_item(x.nth(2))),
        _ => {
            let subs: Vec<SelectorBuilder> = x.list()[2..].iter().map(sbuild).collect();
            match x.nth(1).int() {
                1 => SelectorBuilder::MultiSelector(subs),
                2 => SelectorBuilder::CompositeSelector(subs),
                _ => SelectorBuilder::DirectionalSelector(subs),
            }
        }
    }
}

fn outcome<T>(r: Option<Result<T, StamError>>, h: impl Fn(&T) -> usize) -> Sx {
    match r {
        None => l(vec![a(-1)]),
        Some(Err(_)) => l(vec![a(0)]),
        Some(Ok(v)) => l(vec![a(1), a(h(&v) as i64)]),
    }
}

/// apply one encoded operation to the store; the outcome as the model prints it
pub fn apply(store: &mut AnnotationStore, op: &Sx) -> Sx {
    match op.nth(0).int() {
        0 => {
            let b = TextResourceBuilder::new().with_id(rid(op.nth(1).int())).with_text(text_of_len(op.nth(2).int() as usize));
            outcome(guard(|| store.add_resource(b)), |h| h.as_usize())
        }
        1 => {
            let b = AnnotationDataSetBuilder::new().with_id(sid(op.nth(1).int()));
            outcome(guard(|| store.add_dataset(b)), |h| h.as_usize())
        }
        2 => {
            let b = dbuild(op.nth(1));
            outcome(guard(|| store.insert_data(b)), |h| h.1.as_usize())
        }
        3 => {
            let mut b = AnnotationBuilder::new();
            if op.nth(1).int() >= 0 {
                b = b.with_id(aid(op.nth(1).int()));
            }
            if let Sx::L(_) = op.nth(2) {
                b = b.with_target(sbuild(op.nth(2)));
            }
            for d in op.nth(3).list() {
                b = b.with_data_builder(dbuild(d));
            }
            outcome(guard(|| store.annotate(b)), |h| h.as_usize())
        }
        4 => {
            let rf = op.nth(1);
            let r = if rf.nth(0).int() == 0 {
                let id = aid(rf.nth(1).int());
                guard(|| store.remove_annotation(id.as_str()))
            } else {
                let h = AnnotationHandle::new(rf.nth(1).int() as usize);
                if rf.nth(0).int() == 2 && temp_refs_on() && store.annotation(h).is_some() {
                    // by temporary id (a live item only: for a dead one it is an unknown id, see temp_ref)
                    let id = format!("!A{}", h.as_usize());
                    guard(|| store.remove_annotation(id.as_str()))
                } else {
                    guard(|| store.remove_annotation(h))
                }
            };
            match r {
                None => l(vec![a(-1)]),
                Some(Err(_)) => l(vec![a(0)]),
                Some(Ok(())) => l(vec![a(1)]),
            }
        }
        5 | 6 => {
            let strict = op.nth(3).int() != 0;
            let set = temp_set(store, op.nth(1));
            let setlive = |store: &AnnotationStore| -> Option<AnnotationDataSetHandle> {
                let x = op.nth(1);
                if x.nth(0).int() == 0 { None } else { Some(AnnotationDataSetHandle::new(x.nth(1).int() as usize)) }
            };
            let r = if op.nth(0).int() == 5 {
                let x = op.nth(2);
                let d = match (x, setlive(store)) {
                    (Sx::L(_), Some(sh)) if x.nth(0).int() == 2 && temp_refs_on() && store.dataset(sh).map(|s| s.annotationdata(AnnotationDataHandle::new(x.nth(1).int() as usize)).is_some()).unwrap_or(false) => {
                        BuildItem::Id(format!("!D{}", x.nth(1).int()))
                    }
                    _ => data_item(x),
                };
                guard(|| store.remove_data(set, d, strict))
            } else {
                let x = op.nth(2);
                let k = match (x, setlive(store)) {
                    (Sx::L(_), Some(sh)) if x.nth(0).int() == 2 && temp_refs_on() && store.dataset(sh).map(|s| s.key(DataKeyHandle::new(x.nth(1).int() as usize)).is_some()).unwrap_or(false) => {
                        BuildItem::Id(format!("!K{}", x.nth(1).int()))
                    }
                    _ => key_item(x),
                };
                guard(|| store.remove_key(set, k, strict))
            };
            match r {
                None => l(vec![a(-1)]),
                Some(Err(_)) => l(vec![a(0)]),
                Some(Ok(())) => l(vec![a(1)]),
            }
        }
        9 => {
            // a key declared on its own: AnnotationDataSet::insert(DataKey::new(id)) on an existing set
            let set = temp_set(store, op.nth(1));
            let key = kid(op.nth(2).int());
            let r = guard(|| {
                let ds: Result<&mut AnnotationDataSet, StamError> = store.get_mut(set);
                ds.and_then(|ds| ds.insert(DataKey::new(key)))
            });
            outcome(r, |h| h.as_usize())
        }
        13 => {
            // add_dataset from a builder that carries data items: (13 setid (dbuild ...)); the set
            // reference inside the data builders is ignored
            let mut b = AnnotationDataSetBuilder::new().with_id(sid(op.nth(1).int()));
            for d in op.nth(2).list() {
                b = b.with_data(dbuild(d));
            }
            outcome(guard(|| store.add_dataset(b)), |h| h.as_usize())
        }
        14 => {
            // shrink_to_fit: a performance-only call (also made at the end of every load)
            match guard(|| store.shrink_to_fit(true)) {
                None => l(vec![a(-1)]),
                Some(()) => l(vec![a(1)]),
            }
        }
        7 => {
            let x = op.nth(1);
            let it = if x.nth(0).int() == 2 && temp_refs_on() && store.resource(TextResourceHandle::new(x.nth(1).int() as usize)).is_some() {
                BuildItem::Id(format!("!R{}", x.nth(1).int()))
            } else {
                res_item(x)
            };
            match guard(|| store.remove_resource(it)) {
                None => l(vec![a(-1)]),
                Some(Err(_)) => l(vec![a(0)]),
                Some(Ok(())) => l(vec![a(1)]),
            }
        }
        _ => {
            let it = temp_set(store, op.nth(1));
            match guard(|| store.remove_dataset(it)) {
                None => l(vec![a(-1)]),
                Some(Err(_)) => l(vec![a(0)]),
                Some(Ok(())) => l(vec![a(1)]),
            }
        }
    }
}

fn mode_nat(m: &OffsetMode) -> i64 {
    match m {
        OffsetMode::BeginBegin => 0,
        OffsetMode::BeginEnd => 1,
        OffsetMode::EndEnd => 2,
        OffsetMode::EndBegin => 3,
    }
}

fn handles<'a, I: Iterator<Item = ResultItem<'a, Annotation>>>(it: I) -> Sx {
    nats(it.map(|x| x.handle().as_usize()))
}

const DEAD: Sx = Sx::A(-2);
fn panic_sx() -> Sx {
    l(vec![a(-1)])
}

pub fn obs_annotation(store: &AnnotationStore, h: usize) -> Sx {
    guard(|| {
        let ann = match store.annotation(AnnotationHandle::new(h)) {
            Some(x) => x,
            None => return DEAD,
        };
        let target = ann.as_ref().target();
        let kind = match target.kind() {
            SelectorKind::MultiSelector => 1,
            SelectorKind::CompositeSelector => 2,
            SelectorKind::DirectionalSelector => 3,
            _ => 0,
        };
        let mut leaves: Vec<Vec<i64>> = Vec::new();
        for sel in target.iter(store, false) {
            match sel.as_ref() {
                Selector::TextSelector(r, t, m) => leaves.push(vec![0, r.as_usize() as i64, t.as_usize() as i64, mode_nat(m), 0]),
                Selector::AnnotationSelector(x, Some((r, t, m))) => {
                    leaves.push(vec![1, r.as_usize() as i64, t.as_usize() as i64, mode_nat(m), x.as_usize() as i64])
                }
                Selector::AnnotationSelector(x, None) => leaves.push(vec![2, x.as_usize() as i64, 0, 0, 0]),
                Selector::ResourceSelector(r) => leaves.push(vec![3, r.as_usize() as i64, 0, 0, 0]),
                Selector::DataSetSelector(d) => leaves.push(vec![4, d.as_usize() as i64, 0, 0, 0]),
                Selector::DataKeySelector(d, k) => leaves.push(vec![5, d.as_usize() as i64, k.as_usize() as i64, 0, 0]),
                Selector::AnnotationDataSelector(d, x) => leaves.push(vec![6, d.as_usize() as i64, x.as_usize() as i64, 0, 0]),
                _ => {}
            }
        }
        if kind != 3 {
            leaves.sort();
        }
        let desc = l(vec![
            tok_of(ann.id(), 'a'),
            l(ann.as_ref().raw_data().iter().map(|(s, d)| l(vec![a(s.as_usize() as i64), a(d.as_usize() as i64)])).collect()),
            a(kind),
            l(leaves.into_iter().map(|v| l(v.into_iter().map(a).collect())).collect()),
        ]);
        l(vec![desc, handles(ann.annotations())])
    })
    .unwrap_or_else(panic_sx)
}

fn leaf_key(sel: &Selector) -> Option<Vec<i64>> {
    Some(match sel {
        Selector::TextSelector(r, t, m) => vec![0, r.as_usize() as i64, t.as_usize() as i64, mode_nat(m), 0],
        Selector::AnnotationSelector(x, Some((r, t, m))) => vec![1, r.as_usize() as i64, t.as_usize() as i64, mode_nat(m), x.as_usize() as i64],
        Selector::AnnotationSelector(x, None) => vec![2, x.as_usize() as i64, 0, 0, 0],
        Selector::ResourceSelector(r) => vec![3, r.as_usize() as i64, 0, 0, 0],
        Selector::DataSetSelector(d) => vec![4, d.as_usize() as i64, 0, 0, 0],
        Selector::DataKeySelector(d, k) => vec![5, d.as_usize() as i64, k.as_usize() as i64, 0, 0],
        Selector::AnnotationDataSelector(d, x) => vec![6, d.as_usize() as i64, x.as_usize() as i64, 0, 0],
        Selector::RangedTextSelector { resource, begin, end } => vec![7, resource.as_usize() as i64, begin.as_usize() as i64, end.as_usize() as i64, 0],
        Selector::RangedAnnotationSelector { begin, end, with_text } => vec![8, begin.as_usize() as i64, end.as_usize() as i64, *with_text as i64, 0],
        _ => return None,
    })
}

/// The stored form of a complex target (the subselector vector with its internal ranged
/// selectors, as `Annotation::target()` exposes it) and what iterating over it yields, in the
/// stored order. None for simple targets and empty slots.
pub fn obs_stored(store: &AnnotationStore, h: usize) -> Option<(Sx, Sx, i64)> {
    guard(|| {
        let ann = store.annotation(AnnotationHandle::new(h))?;
        let target = ann.as_ref().target();
        let (subs, kind) = match target {
            Selector::MultiSelector(v) => (v, 1),
            Selector::CompositeSelector(v) => (v, 2),
            Selector::DirectionalSelector(v) => (v, 3),
            _ => return None,
        };
        let enc = |v: Vec<Vec<i64>>| l(v.into_iter().map(|k| l(k.into_iter().map(a).collect())).collect());
        let stored: Vec<Vec<i64>> = subs.iter().map(|s| leaf_key(s).unwrap_or(vec![9, 0, 0, 0, 0])).collect();
        let expanded: Vec<Vec<i64>> = target.iter(store, false).filter_map(|s| leaf_key(s.as_ref())).collect();
        Some((enc(stored), enc(expanded), kind))
    })
    .flatten()
}

pub fn obs_resource(store: &AnnotationStore, h: usize) -> Sx {
    guard(|| {
        let res = match store.resource(TextResourceHandle::new(h)) {
            Some(x) => x,
            None => return DEAD,
        };
        let mut sels = Vec::new();
        for t in 0..res.textselections_len() {
            match res.textselection_by_handle(TextSelectionHandle::new(t)) {
                Ok(ts) => sels.push(l(vec![a(ts.begin() as i64), a(ts.end() as i64), handles(ts.annotations())])),
                Err(_) => sels.push(DEAD),
            }
        }
        l(vec![
            tok_of(res.id(), 'r'),
            a(res.textlen() as i64),
            handles(res.annotations_as_metadata()),
            handles(res.annotations()),
            l(sels),
        ])
    })
    .unwrap_or_else(panic_sx)
}

pub fn obs_dataset(store: &AnnotationStore, h: usize) -> Sx {
    guard(|| {
        let set = match store.dataset(AnnotationDataSetHandle::new(h)) {
            Some(x) => x,
            None => return DEAD,
        };
        let mut keys = Vec::new();
        for k in 0..set.as_ref().keys_len() {
            match set.key(DataKeyHandle::new(k)) {
                None => keys.push(DEAD),
                Some(key) => keys.push(l(vec![
                    tok_of(key.id(), 'k'),
                    nats(key.data().map(|d| d.handle().as_usize())),
                    handles(key.annotations()),
                    handles(key.annotations_as_metadata()),
                ])),
            }
        }
        let mut data = Vec::new();
        for x in 0..set.as_ref().data_len() {
            match set.annotationdata(AnnotationDataHandle::new(x)) {
                None => data.push(DEAD),
                Some(d) => data.push(l(vec![
                    tok_of(d.id(), 'd'),
                    a(d.key().handle().as_usize() as i64),
                    value_sx(d.value()),
                    handles(d.annotations()),
                    handles(d.annotations_as_metadata()),
                ])),
            }
        }
        l(vec![tok_of(set.id(), 's'), handles(set.annotations()), l(keys), l(data)])
    })
    .unwrap_or_else(panic_sx)
}

/// the counting shortcuts of the API, which read the length of an index entry directly:
/// per resource the annotations_len() of every text selection, per dataset the annotations_count()
/// of every key and the annotations_len() of every data item (-2 for an empty slot)
pub fn obs_counts(store: &AnnotationStore) -> Sx {
    guard(|| {
        let mut rs = Vec::new();
        for h in 0..store.resources_len() {
            match store.resource(TextResourceHandle::new(h)) {
                None => rs.push(DEAD),
                Some(res) => rs.push(l((0..res.textselections_len())
                    .map(|t| match res.textselection_by_handle(TextSelectionHandle::new(t)) {
                        Ok(ts) => a(ts.annotations_len() as i64),
                        Err(_) => DEAD,
                    })
                    .collect())),
            }
        }
        let mut ds = Vec::new();
        for h in 0..store.datasets_len() {
            match store.dataset(AnnotationDataSetHandle::new(h)) {
                None => ds.push(DEAD),
                Some(set) => {
                    let keys = (0..set.as_ref().keys_len())
                        .map(|k| set.key(DataKeyHandle::new(k)).map(|key| a(key.annotations_count() as i64)).unwrap_or(DEAD))
                        .collect();
                    let data = (0..set.as_ref().data_len())
                        .map(|x| set.annotationdata(AnnotationDataHandle::new(x)).map(|d| a(d.annotations_len() as i64)).unwrap_or(DEAD))
                        .collect();
                    ds.push(l(vec![l(keys), l(data)]));
                }
            }
        }
        l(vec![l(rs), l(ds)])
    })
    .unwrap_or_else(panic_sx)
}

/// "asking an annotation for its targets", by kind, through the convenience lookups of the API
/// (all of them walk the target recursively through annotation selectors except datasets() and
/// annotations_in_targets(One)); handles as sorted lists with duplicates kept
pub fn obs_forward(store: &AnnotationStore) -> Sx {
    guard(|| {
        let mut v = Vec::new();
        for h in 0..store.annotations_len() {
            match store.annotation(AnnotationHandle::new(h)) {
                None => v.push(DEAD),
                Some(ann) => {
                    let sorted = |mut x: Vec<usize>| {
                        x.sort();
                        nats(x)
                    };
                    let pairs = |mut x: Vec<(usize, usize)>| {
                        x.sort();
                        l(x.into_iter().map(|(p, q)| l(vec![a(p as i64), a(q as i64)])).collect())
                    };
                    v.push(l(vec![
                        sorted(ann.resources().map(|r| r.handle().as_usize()).collect()),
                        sorted(ann.resources_as_metadata().map(|r| r.handle().as_usize()).collect()),
                        sorted(ann.datasets().map(|r| r.handle().as_usize()).collect()),
                        pairs(ann.data_as_metadata().map(|d| (d.set().handle().as_usize(), d.handle().as_usize())).collect()),
                        pairs(ann.keys_as_metadata().map(|k| (k.set().handle().as_usize(), k.handle().as_usize())).collect()),
                        sorted(ann.annotations_in_targets(AnnotationDepth::One).map(|r| r.handle().as_usize()).collect()),
                        sorted(ann.annotations_in_targets(AnnotationDepth::Max).map(|r| r.handle().as_usize()).collect()),
                    ]));
                }
            }
        }
        l(v)
    })
    .unwrap_or_else(panic_sx)
}

/// The iterator adaptors of the API (AnnotationIterator, DataIterator, KeyIterator,
/// ResourcesIterator) and the derived per-item lookups: each is documented as the union of the
/// per-item answers, chronological and duplicate-free.  Handles in the order the API yields them.
/// Layout (see coq/Run/C01.v obs_adaptors):
///   ( (for all live annotations / for those with an even handle:
///        (annotations in_targets_one in_targets_max data data_as_metadata keys keys_as_metadata resources resources_as_metadata textselections.annotations))
///     (per dataset: (data.annotations data.annotations_as_metadata data.keys keys.annotations keys.annotations_as_metadata
///                    (per data item: (resources resources_as_metadata datasets)) (per key: (resources resources_as_metadata datasets))))
///     (resources.annotations resources.annotations_as_metadata resources.textselections.annotations) )
pub fn obs_adaptors(store: &AnnotationStore) -> Sx {
    guard(|| {
        let hs = |v: Vec<usize>| nats(v);
        let pairs = |x: Vec<(usize, usize)>| l(x.into_iter().map(|(p, q)| l(vec![a(p as i64), a(q as i64)])).collect());
        let mut by_sel = Vec::new();
        for even in [false, true] {
            let sel = || store.annotations().filter(move |x| !even || x.handle().as_usize() % 2 == 0);
            by_sel.push(l(vec![
                hs(sel().annotations().map(|x| x.handle().as_usize()).collect()),
                hs(sel().annotations_in_targets(AnnotationDepth::One).map(|x| x.handle().as_usize()).collect()),
                hs(sel().annotations_in_targets(AnnotationDepth::Max).map(|x| x.handle().as_usize()).collect()),
                pairs(sel().data().map(|d| (d.set().handle().as_usize(), d.handle().as_usize())).collect()),
                pairs(sel().data_as_metadata().map(|d| (d.set().handle().as_usize(), d.handle().as_usize())).collect()),
                pairs(sel().keys().map(|k| (k.set().handle().as_usize(), k.handle().as_usize())).collect()),
                pairs(sel().keys_as_metadata().map(|k| (k.set().handle().as_usize(), k.handle().as_usize())).collect()),
                hs(sel().resources().map(|r| r.handle().as_usize()).collect()),
                hs(sel().resources_as_metadata().map(|r| r.handle().as_usize()).collect()),
                // AnnotationIterator::textselections, then TextSelectionIterator::annotations
                hs(sel().textselections().annotations().map(|x| x.handle().as_usize()).collect()),
            ]));
        }
        let mut sets = Vec::new();
        for h in 0..store.datasets_len() {
            match store.dataset(AnnotationDataSetHandle::new(h)) {
                None => sets.push(DEAD),
                Some(set) => {
                    let mut per_data = Vec::new();
                    for x in 0..set.as_ref().data_len() {
                        per_data.push(match set.annotationdata(AnnotationDataHandle::new(x)) {
                            None => DEAD,
                            Some(d) => l(vec![
                                hs(d.resources().map(|r| r.handle().as_usize()).collect()),
                                hs(d.resources_as_metadata().map(|r| r.handle().as_usize()).collect()),
                                hs(d.datasets().map(|r| r.handle().as_usize()).collect()),
                            ]),
                        });
                    }
                    let mut per_key = Vec::new();
                    for k in 0..set.as_ref().keys_len() {
                        per_key.push(match set.key(DataKeyHandle::new(k)) {
                            None => DEAD,
                            Some(key) => l(vec![
                                hs(key.resources().into_iter().map(|r| r.handle().as_usize()).collect()),
                                hs(key.resources_as_metadata().into_iter().map(|r| r.handle().as_usize()).collect()),
                                hs(key.datasets().into_iter().map(|r| r.handle().as_usize()).collect()),
                            ]),
                        });
                    }
                    sets.push(l(vec![
                        hs(set.data().annotations().map(|x| x.handle().as_usize()).collect()),
                        hs(set.data().annotations_as_metadata().map(|x| x.handle().as_usize()).collect()),
                        hs(set.data().keys().map(|x| x.handle().as_usize()).collect()),
                        hs(set.keys().annotations().map(|x| x.handle().as_usize()).collect()),
                        hs(set.keys().annotations_as_metadata().map(|x| x.handle().as_usize()).collect()),
                        l(per_data),
                        l(per_key),
                    ]));
                }
            }
        }
        let res = l(vec![
            hs(store.resources().annotations().map(|x| x.handle().as_usize()).collect()),
            hs(store.resources().annotations_as_metadata().map(|x| x.handle().as_usize()).collect()),
            // ResourcesIterator::textselections (all known selections of all resources), then their annotations
            hs(store.resources().textselections().annotations().map(|x| x.handle().as_usize()).collect()),
        ]);
        l(vec![l(by_sel), l(sets), res])
    })
    .unwrap_or_else(panic_sx)
}

pub fn obs_ids(store: &AnnotationStore) -> Sx {
    guard(|| {
        let one = |o: Option<usize>| -> Sx {
            match o {
                Some(h) => nats(vec![h]),
                None => nats(Vec::<usize>::new()),
            }
        };
        l(vec![
            l((0..ID_TOKENS).map(|t| one(store.annotation(aid(t as i64).as_str()).map(|x| x.handle().as_usize()))).collect()),
            l((0..ID_TOKENS).map(|t| one(store.resource(rid(t as i64).as_str()).map(|x| x.handle().as_usize()))).collect()),
            l((0..ID_TOKENS).map(|t| one(store.dataset(sid(t as i64).as_str()).map(|x| x.handle().as_usize()))).collect()),
        ])
    })
    .unwrap_or_else(panic_sx)
}

/// the observation vector of a state, in the order of coq/Run/StoreRun.v obs_state
pub fn observe(store: &AnnotationStore) -> Vec<Sx> {
    let mut v = Vec::new();
    for h in 0..store.annotations_len() {
        v.push(obs_annotation(store, h));
    }
    for h in 0..store.resources_len() {
        v.push(obs_resource(store, h));
    }
    for h in 0..store.datasets_len() {
        v.push(obs_dataset(store, h));
    }
    v.push(obs_ids(store));
    v
}

pub fn new_store() -> AnnotationStore {
    AnnotationStore::new(Config::default().with_generate_ids(false).with_debug(false))
}

// ---------------------------------------------------------------------------------------------
// history generation: a light shadow of the store keeps the requests mostly valid

#[derive(Default, Clone)]
pub struct Shadow {
    pub res: Vec<(i64, usize, bool)>,               // (token, len, live?) by handle
    pub sets: Vec<(i64, bool, Vec<i64>, Vec<i64>)>, // (token, live, key tokens by handle, data tokens (-1 = no id) by handle)
    pub anns: Vec<(i64, bool, bool)>,               // (token or -1, live?, has a single text selection)
    pub next_tok: i64,
}

pub struct GenCfg {
    pub max_ops: usize,
    pub removals: usize, // weight of removal operations (0 = none)
    pub invalid: usize,  // one in `invalid` references is wrong (0 = never)
    pub values: bool,    // typed values (C10) or small ints
}

fn r(t: i64) -> Sx {
    // tokens are naturals; a dead slot of the shadow (-1) becomes a token nothing carries
    l(vec![a(0), a(if t < 0 { 9 } else { t })])
}
fn hnd(h: usize) -> Sx {
    l(vec![a(1), a(h as i64)])
}
fn cur(rng: &mut Rng, len: usize) -> (Sx, Sx) {
    // mostly valid pairs in either alignment
    let b = rng.below(len + 1);
    let e = b + rng.below(len + 1 - b);
    // one in 12 inverted, one in 12 ending beyond the text (by 1..3 codepoints: for texts with
    // multi-byte characters still within the byte length)
    let (b, e) = if rng.chance(1, 12) {
        (e + 1, b)
    } else if rng.chance(1, 12) {
        (b, len + 1 + rng.below(3))
    } else {
        (b, e)
    };
    let cb = if rng.chance(1, 4) { l(vec![a(1), a(b as i64 - len as i64)]) } else { l(vec![a(0), a(b as i64)]) };
    let ce = if rng.chance(1, 4) { l(vec![a(1), a(e as i64 - len as i64)]) } else { l(vec![a(0), a(e as i64)]) };
    (cb, ce)
}

pub fn gen_value(rng: &mut Rng, typed: bool, depth: usize) -> Sx {
    if !typed {
        return l(vec![a(2), a(rng.below(3) as i64)]);
    }
    match rng.below(if depth > 0 { 5 } else { 6 }) {
        0 => l(vec![a(0)]),
        1 => l(vec![a(1), a(rng.below(2) as i64)]),
        2 => l(vec![a(2), a(rng.range(-3, 3))]),
        3 => {
            if NEAR_ONE.load(std::sync::atomic::Ordering::Relaxed) && rng.chance(1, 4) {
                l(vec![a(3), a(if rng.chance(1, 2) { 999 } else { -999 })])
            } else {
                l(vec![a(3), a(rng.range(-3, 3) * 500)])
            }
        }
        4 => {
            let pool: [&[i64]; 5] = [&[], &[97], &[98], &[49], &[233, 128512]];
            let mut v = vec![a(4)];
            v.extend(pool[rng.below(pool.len())].iter().map(|c| a(*c)));
            l(v)
        }
        _ => {
            let mut v = vec![a(5)];
            for _ in 0..rng.below(3) {
                v.push(gen_value(rng, typed, depth + 1));
            }
            l(v)
        }
    }
}

impl Shadow {
    fn live_res(&self) -> Vec<usize> {
        (0..self.res.len()).filter(|i| self.res[*i].2).collect()
    }
    fn live_sets(&self) -> Vec<usize> {
        (0..self.sets.len()).filter(|i| self.sets[*i].1).collect()
    }
    fn live_anns(&self) -> Vec<usize> {
        (0..self.anns.len()).filter(|i| self.anns[*i].1).collect()
    }
    fn res_ref(&self, rng: &mut Rng, h: usize) -> Sx {
        if rng.chance(1, 3) {
            hnd(h)
        } else {
            r(self.res[h].0)
        }
    }
    fn set_ref(&self, rng: &mut Rng, h: usize) -> Sx {
        if rng.chance(1, 3) {
            hnd(h)
        } else {
            r(self.sets[h].0)
        }
    }
    fn ann_ref(&self, rng: &mut Rng, h: usize) -> Sx {
        if self.anns[h].0 >= 0 && rng.chance(2, 3) {
            r(self.anns[h].0)
        } else {
            hnd(h)
        }
    }

    fn gen_simple_target(&self, rng: &mut Rng, cfg: &GenCfg, depth: usize) -> Option<Sx> {
        let bad = cfg.invalid > 0 && rng.chance(1, cfg.invalid);
        let lr = self.live_res();
        let ls = self.live_sets();
        let la = self.live_anns();
        for _ in 0..8 {
            match rng.below(7) {
                0 | 1 if !lr.is_empty() => {
                    let h = *rng.pick(&lr);
                    let (cb, ce) = cur(rng, self.res[h].1);
                    let rr = if bad { r(9) } else { self.res_ref(rng, h) };
                    return Some(l(vec![a(0), rr, cb, ce]));
                }
                2 if !la.is_empty() => {
                    let h = *rng.pick(&la);
                    let ar = if bad { hnd(self.anns.len() + 3) } else { self.ann_ref(rng, h) };
                    if rng.chance(1, 2) {
                        // relative offset: small cursors (the parent's length is not tracked)
                        let n = rng.below(3);
                        let m = n + rng.below(3);
                        let cb = l(vec![a(0), a(n as i64)]);
                        let ce = if rng.chance(1, 3) { l(vec![a(1), a(-(rng.below(2) as i64))]) } else { l(vec![a(0), a(m as i64)]) };
                        return Some(l(vec![a(2), ar, cb, ce]));
                    }
                    return Some(l(vec![a(1), ar]));
                }
                3 if !lr.is_empty() => {
                    let h = *rng.pick(&lr);
                    return Some(l(vec![a(3), if bad { hnd(self.res.len() + 2) } else { self.res_ref(rng, h) }]));
                }
                4 if !ls.is_empty() => {
                    let h = *rng.pick(&ls);
                    return Some(l(vec![a(4), if bad { r(9) } else { self.set_ref(rng, h) }]));
                }
                5 if !ls.is_empty() => {
                    let h = *rng.pick(&ls);
                    if !self.sets[h].2.is_empty() {
                        let k = rng.below(self.sets[h].2.len());
                        let kr = if bad { r(9) } else if rng.chance(1, 2) { hnd(k) } else { r(self.sets[h].2[k]) };
                        return Some(l(vec![a(5), self.set_ref(rng, h), kr]));
                    }
                }
                6 if !ls.is_empty() => {
                    let h = *rng.pick(&ls);
                    if !self.sets[h].3.is_empty() {
                        let x = rng.below(self.sets[h].3.len());
                        let xr = if bad { hnd(self.sets[h].3.len() + 2) } else if self.sets[h].3[x] >= 0 && rng.chance(1, 2) { r(self.sets[h].3[x]) } else { hnd(x) };
                        return Some(l(vec![a(6), self.set_ref(rng, h), xr]));
                    }
                }
                _ => {}
            }
        }
        let _ = depth;
        None
    }

    pub fn gen_target(&self, rng: &mut Rng, cfg: &GenCfg) -> Option<Sx> {
        if rng.chance(1, 4) {
            let kind = 1 + rng.below(3) as i64;
            let n = 1 + rng.below(4);
            let mut v = vec![a(7), a(kind)];
            // complex selectors over text: often consecutive ranges on one resource so that the
            // internal range compression triggers (and just misses)
            let lr = self.live_res();
            let la = self.live_anns();
            if !la.is_empty() && rng.chance(1, 4) {
                // consecutive annotations, by handle, without offset or with an offset covering the
                // whole target (in either alignment) or just not the whole: the internal
                // RangedAnnotationSelector (with and without text) triggers and just misses
                let start = *rng.pick(&la);
                let style = rng.below(5);
                let mut h = start;
                for _ in 0..n + 1 {
                    if !la.contains(&h) {
                        break;
                    }
                    let st = if rng.chance(1, 5) { rng.below(5) } else { style };
                    v.push(match st {
                        0 => l(vec![a(1), hnd(h)]),
                        1 => l(vec![a(2), hnd(h), l(vec![a(0), a(0)]), l(vec![a(1), a(0)])]),
                        2 => l(vec![a(2), hnd(h), l(vec![a(0), a(0)]), l(vec![a(0), a(1 + rng.below(3) as i64)])]),
                        4 => l(vec![a(2), hnd(h), l(vec![a(0), a(0)]), l(vec![a(1), a(-(1 + rng.below(2) as i64))])]),
                        _ => l(vec![a(2), hnd(h), l(vec![a(1), a(-(1 + rng.below(2) as i64))]), l(vec![a(1), a(0)])]),
                    });
                    h += if rng.chance(1, 6) { 2 } else { 1 };
                }
            } else if !lr.is_empty() && rng.chance(1, 2) {
                let h = *rng.pick(&lr);
                let len = self.res[h].1;
                let mut p = 0usize;
                for _ in 0..n {
                    if p >= len {
                        break;
                    }
                    let q = (p + 1 + rng.below(2)).min(len);
                    v.push(l(vec![a(0), self.res_ref(rng, h), l(vec![a(0), a(p as i64)]), l(vec![a(0), a(q as i64)])]));
                    p = if rng.chance(1, 4) { q + 1 } else { q };
                }
            } else {
                for _ in 0..n {
                    if let Some(t) = self.gen_simple_target(rng, cfg, 1) {
                        v.push(t);
                    }
                }
            }
            if cfg.invalid > 0 && rng.chance(1, cfg.invalid * 2) {
                // nested complex selector (refused), at any position, its members of any kind: they
                // must not leave anything behind either
                let mut inner = vec![a(7), a(1 + rng.below(3) as i64)];
                for _ in 0..1 + rng.below(2) {
                    if let Some(t) = self.gen_simple_target(rng, cfg, 1) {
                        inner.push(t);
                    }
                }
                if inner.len() == 2 {
                    inner.push(l(vec![a(3), hnd(0)]));
                }
                let at = 2 + rng.below(v.len() - 1);
                v.insert(at, l(inner));
            }
            if v.len() > 2 {
                return Some(l(v));
            }
        }
        self.gen_simple_target(rng, cfg, 0)
    }

    pub fn gen_dbuild(&self, rng: &mut Rng, cfg: &GenCfg) -> Sx {
        let ls = self.live_sets();
        let bad = cfg.invalid > 0 && rng.chance(1, cfg.invalid);
        let setref = if ls.is_empty() || rng.chance(1, 10) {
            r(rng.below(4) as i64)
        } else {
            let h = *rng.pick(&ls);
            self.set_ref(rng, h)
        };
        // existing data by reference
        if !ls.is_empty() && rng.chance(1, 5) {
            let h = *rng.pick(&ls);
            if !self.sets[h].3.is_empty() {
                let x = rng.below(self.sets[h].3.len());
                let xr = if bad { r(9) } else if self.sets[h].3[x] >= 0 { r(self.sets[h].3[x]) } else { hnd(x) };
                return l(vec![self.set_ref(rng, h), xr, a(-1), l(vec![a(0)])]);
            }
        }
        let id = if rng.chance(1, 3) { r(rng.below(6) as i64) } else { a(-1) };
        let key = if bad && rng.chance(1, 2) { a(-1) } else if bad { hnd(7) } else { r(rng.below(3) as i64) };
        l(vec![setref, id, key, gen_value(rng, cfg.values, 0)])
    }

    /// generate the next operation and update the shadow optimistically (the shadow is only a
    /// guide for generating references; it is re-synchronised by the caller from the real store)
    pub fn gen_op(&self, rng: &mut Rng, cfg: &GenCfg) -> Sx {
        let n_res = self.live_res().len();
        let total = 10 + cfg.removals;
        let pick = rng.below(total);
        if n_res == 0 || pick == 0 {
            let tok = if rng.chance(1, 8) && !self.res.is_empty() { self.res[rng.below(self.res.len())].0 } else { rng.below(6) as i64 };
            return l(vec![a(0), a(if tok < 0 { 5 } else { tok }), a(rng.below(9) as i64)]);
        }
        if pick == 1 {
            return l(vec![a(1), a(rng.below(4) as i64)]);
        }
        if BARE_KEYS.load(std::sync::atomic::Ordering::Relaxed) && !self.live_sets().is_empty() && rng.chance(1, 10) {
            let ls = self.live_sets();
            let h = *rng.pick(&ls);
            return l(vec![a(9), self.set_ref(rng, h), a(rng.below(5) as i64)]);
        }
        if pick == 2 {
            return l(vec![a(2), self.gen_dbuild(rng, cfg)]);
        }
        if pick < 10 {
            let id = if rng.chance(1, 2) { a(rng.below(8) as i64) } else { a(-1) };
            let target = if cfg.invalid > 0 && rng.chance(1, cfg.invalid * 3) {
                a(-1)
            } else {
                self.gen_target(rng, cfg).unwrap_or(a(-1))
            };
            let nd = rng.below(3);
            let mut datas = Vec::new();
            for _ in 0..nd {
                datas.push(self.gen_dbuild(rng, cfg));
            }
            if nd == 2 && rng.chance(1, 4) {
                datas[1] = datas[0].clone(); // the same data twice
            }
            return l(vec![a(3), id, target, l(datas)]);
        }
        // removals (a handle reference is sometimes given as the temporary id)
        let op = self.gen_removal(rng);
        if rng.chance(1, 3) {
            return temp_refs(op);
        }
        op
    }

    fn gen_removal(&self, rng: &mut Rng) -> Sx {
        let la = self.live_anns();
        let ls = self.live_sets();
        let lr = self.live_res();
        match rng.below(8) {
            0 | 1 | 2 if !la.is_empty() => {
                let h = *rng.pick(&la);
                l(vec![a(4), self.ann_ref(rng, h)])
            }
            3 | 4 if !ls.is_empty() => {
                let h = *rng.pick(&ls);
                if self.sets[h].3.is_empty() {
                    return l(vec![a(4), hnd(rng.below(self.anns.len() + 1))]);
                }
                let x = rng.below(self.sets[h].3.len());
                let xr = if self.sets[h].3[x] >= 0 && rng.chance(1, 2) { r(self.sets[h].3[x]) } else { hnd(x) };
                l(vec![a(5), self.set_ref(rng, h), xr, a(rng.below(2) as i64)])
            }
            5 if !ls.is_empty() => {
                let h = *rng.pick(&ls);
                if self.sets[h].2.is_empty() {
                    return l(vec![a(4), hnd(rng.below(self.anns.len() + 1))]);
                }
                let k = rng.below(self.sets[h].2.len());
                let kr = if rng.chance(1, 2) { r(self.sets[h].2[k]) } else { hnd(k) };
                l(vec![a(6), self.set_ref(rng, h), kr, a(rng.below(2) as i64)])
            }
            6 if !lr.is_empty() => {
                let h = *rng.pick(&lr);
                l(vec![a(7), self.res_ref(rng, h)])
            }
            7 if !ls.is_empty() => {
                let h = *rng.pick(&ls);
                l(vec![a(8), self.set_ref(rng, h)])
            }
            _ => l(vec![a(4), hnd(rng.below(self.anns.len() + 1))]),
        }
    }

    /// re-synchronise the shadow from the real store
    pub fn sync(&mut self, store: &AnnotationStore) {
        self.res.clear();
        for h in 0..store.resources_len() {
            match store.resource(TextResourceHandle::new(h)) {
                Some(x) => self.res.push((tok_of(x.id(), 'r').int(), x.textlen(), true)),
                None => self.res.push((-1, 0, false)),
            }
        }
        self.sets.clear();
        for h in 0..store.datasets_len() {
            match store.dataset(AnnotationDataSetHandle::new(h)) {
                Some(x) => {
                    let keys = (0..x.as_ref().keys_len()).map(|k| x.key(DataKeyHandle::new(k)).map(|k| tok_of(k.id(), 'k').int()).unwrap_or(-1)).collect();
                    let data = (0..x.as_ref().data_len()).map(|d| x.annotationdata(AnnotationDataHandle::new(d)).map(|d| tok_of(d.id(), 'd').int()).unwrap_or(-1)).collect();
                    self.sets.push((tok_of(x.id(), 's').int(), true, keys, data));
                }
                None => self.sets.push((-1, false, vec![], vec![])),
            }
        }
        self.anns.clear();
        for h in 0..store.annotations_len() {
            match store.annotation(AnnotationHandle::new(h)) {
                Some(x) => self.anns.push((tok_of(x.id(), 'a').int(), true, false)),
                None => self.anns.push((-1, false, false)),
            }
        }
    }
}

/// generate a history by running it on a scratch store (so that references are mostly valid)
pub fn gen_history(rng: &mut Rng, cfg: &GenCfg) -> Vec<Sx> {
    let mut store = new_store();
    let mut shadow = Shadow::default();
    let mut ops = Vec::new();
    let n = 1 + rng.below(cfg.max_ops);
    for _ in 0..n {
        let op = shadow.gen_op(rng, cfg);
        let _ = apply(&mut store, &op);
        ops.push(op);
        if guard(|| shadow.sync(&store)).is_none() {
            break;
        }
    }
    ops
}
