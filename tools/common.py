"""Shared plumbing of tools/check and tools/setup: building the harness from
/repo's working tree, regenerating coq/Gen, building the Coq development,
extraction, the OCaml driver."""
import fcntl
import json
import os
import re
import shutil
import subprocess
import sys
import time

VERIF = os.path.dirname(os.path.dirname(os.path.abspath(__file__)))
REPO = os.environ.get("VERIF_REPO", "/repo")
CACHE = os.path.join(VERIF, ".cache")
WORK = os.path.join(CACHE, "work")
COQ = os.path.join(VERIF, "coq")
OCAML = os.path.join(VERIF, "ocaml")
HARNESS = os.path.join(VERIF, "harness")
TARGET = os.path.join(CACHE, "target")
GUARD = "stam_verif"

ENV = dict(os.environ)
ENV.update({"CARGO_NET_OFFLINE": "true", "CARGO_TARGET_DIR": TARGET})


class Lock:
    def __init__(self, name):
        os.makedirs(CACHE, exist_ok=True)
        self.path = os.path.join(CACHE, name + ".lock")

    def __enter__(self):
        self.f = open(self.path, "w")
        fcntl.flock(self.f, fcntl.LOCK_EX)
        return self

    def __exit__(self, *a):
        fcntl.flock(self.f, fcntl.LOCK_UN)
        self.f.close()


def run(cmd, cwd=None, env=None, timeout=None, quiet=True):
    p = subprocess.run(cmd, cwd=cwd, env=env or ENV, timeout=timeout,
                       stdout=subprocess.PIPE, stderr=subprocess.STDOUT, text=True)
    return p.returncode, p.stdout


def build_harness(release=False):
    """cargo build of the harness against /repo's current working tree, hooks on."""
    with Lock("cargo"):
        lock = os.path.join(HARNESS, "Cargo.lock")
        if not os.path.exists(lock):
            shutil.copy(os.path.join(REPO, "Cargo.lock"), lock)
        env = dict(ENV)
        env["RUSTFLAGS"] = (env.get("RUSTFLAGS", "") + " --cfg " + GUARD + " -Awarnings").strip()
        cmd = ["cargo", "build", "--offline", "--quiet"]
        if release:
            cmd.append("--release")
        rc, out = run(cmd, cwd=HARNESS, env=env, timeout=1500)
        if rc != 0 and "Cargo.lock" in out:
            shutil.copy(os.path.join(REPO, "Cargo.lock"), lock)
            rc, out = run(cmd, cwd=HARNESS, env=env, timeout=1500)
        exe = os.path.join(TARGET, "release" if release else "debug", "stam-verif-harness")
        return rc, out, exe


def write_if_changed(path, content):
    if os.path.exists(path):
        with open(path) as f:
            if f.read() == content:
                return False
    os.makedirs(os.path.dirname(path), exist_ok=True)
    with open(path, "w") as f:
        f.write(content)
    return True


def coq_project_files():
    files = []
    with open(os.path.join(COQ, "_CoqProject")) as f:
        for line in f:
            line = line.strip()
            if line.endswith(".v"):
                files.append(line)
    return files


def build_coq(targets=None, jobs=16):
    """full .vo build (never -vos) of the listed targets (default: everything)."""
    with Lock("coq"):
        mk = os.path.join(COQ, "Makefile")
        proj = os.path.join(COQ, "_CoqProject")
        if not os.path.exists(mk) or os.path.getmtime(mk) < os.path.getmtime(proj):
            rc, out = run(["coq_makefile", "-f", "_CoqProject", "-o", "Makefile"], cwd=COQ)
            if rc != 0:
                return rc, out
        cmd = ["timeout", "1500", "make", "-j%d" % jobs, "-k"]
        if targets:
            cmd += targets
        rc, out = run(cmd, cwd=COQ, timeout=1600)
        return rc, out


def build_driver():
    """extraction (ExtrOcamlBasic only) and dune build of the driver."""
    with Lock("coq"):
        ext_v = os.path.join(COQ, "Extract", "Extract.v")
        model = os.path.join(OCAML, "model.ml")
        newest = 0
        for root, _, fs in os.walk(COQ):
            for fn in fs:
                if fn.endswith(".vo") and "Extract" not in root:
                    newest = max(newest, os.path.getmtime(os.path.join(root, fn)))
        newest = max(newest, os.path.getmtime(ext_v))
        if not os.path.exists(model) or os.path.getmtime(model) < newest:
            rc, out = run(["timeout", "600", "coqc", "-Q", COQ, "Stam", ext_v], cwd=OCAML)
            if rc != 0:
                return rc, out, None
        rc, out = run(["timeout", "900", "dune", "build", "./driver.exe"], cwd=OCAML)
        exe = os.path.join(OCAML, "_build", "default", "driver.exe")
        return rc, out, exe


def cone(vfile):
    """transitive closure of `From Stam Require ...` starting at coq/<vfile>."""
    seen = []
    todo = [vfile]
    while todo:
        f = todo.pop()
        if f in seen or not os.path.exists(os.path.join(COQ, f)):
            continue
        seen.append(f)
        src = open(os.path.join(COQ, f)).read()
        src = re.sub(r"\(\*.*?\*\)", "", src, flags=re.S)
        for m in re.finditer(r"From\s+Stam\s+Require\s+(?:Import\s+|Export\s+)?(.*?)\.(?:\s|$)", src, flags=re.S):
            for mod in m.group(1).split():
                todo.append(mod.replace(".", "/") + ".v")
    return seen


PROOF_START = re.compile(r"^\s*(Theorem|Lemma|Corollary|Fact|Remark|Proposition|Example)\s+([A-Za-z0-9_']+)", re.M)
FORBIDDEN = re.compile(r"\b(Admitted|admit|Axiom|Axioms|Parameter|Parameters|Conjecture|Hypothesis|Variable|Variables|Hypotheses|Unset\s+Guard\s+Checking|bypass_check|Admit\s+Obligations|type-in-type|impredicative-set|Unset\s+Universe\s+Checking|Unset\s+Positivity\s+Checking)\b")


def strip_comments(src):
    out = []
    depth = 0
    i = 0
    while i < len(src):
        if src.startswith("(*", i):
            depth += 1
            i += 2
        elif src.startswith("*)", i) and depth > 0:
            depth -= 1
            i += 2
        else:
            if depth == 0:
                out.append(src[i])
            i += 1
    return "".join(out)


def audit_sources(files):
    """count proof obligations (statements closed by Qed/Defined) and look for
    forbidden declarations.  Variable/Hypothesis are allowed inside a Section only."""
    obligations = 0
    closed = 0
    problems = []
    names = []
    for f in files:
        src = strip_comments(open(os.path.join(COQ, f)).read())
        for m in PROOF_START.finditer(src):
            obligations += 1
            names.append(f + ":" + m.group(2))
        closed += len(re.findall(r"\b(Qed|Defined)\s*\.", src))
        depth = 0
        for line in src.split("\n"):
            if re.match(r"\s*Section\s+\w+", line):
                depth += 1
            if re.match(r"\s*End\s+\w+", line) and depth > 0:
                depth -= 1
            for m in FORBIDDEN.finditer(line):
                w = m.group(1)
                if w.split()[0] in ("Variable", "Variables", "Hypothesis", "Hypotheses") and depth > 0:
                    continue
                problems.append("%s: forbidden `%s`" % (f, w))
    return obligations, closed, names, problems


def now():
    return time.time()
