"""Shared plumbing of tools/check and tools/setup: building the harness from
/repo's working tree, regenerating coq/Gen, building the Coq development,
extraction, the OCaml driver."""
import fcntl
import json
import os
import re
import shutil
import subprocess
import sys
import time

VERIF = os.path.dirname(os.path.dirname(os.path.abspath(__file__)))
REPO = os.environ.get("VERIF_REPO", "/repo")
CACHE = os.path.join(VERIF, ".cache")
ALTNAME = None if REPO == "/repo" else re.sub(r"[^A-Za-z0-9_.-]", "_", REPO.strip("/"))
WORK = os.path.join(CACHE, "work") if ALTNAME is None else os.path.join(CACHE, "alt", ALTNAME, "work")
# evidence and replay files of a run against another tree never overwrite the committed ones
EVIDENCE = os.path.join(VERIF, "evidence") if ALTNAME is None else os.path.join(CACHE, "alt", ALTNAME, "evidence")
COQ = os.path.join(VERIF, "coq")
OCAML = os.path.join(VERIF, "ocaml")
HARNESS = os.path.join(VERIF, "harness")
TARGET = os.path.join(CACHE, "target")
GUARD = "stam_verif"

ENV = dict(os.environ)
ENV.update({"CARGO_NET_OFFLINE": "true", "CARGO_TARGET_DIR": TARGET})


class Lock:
    def __init__(self, name):
        os.makedirs(CACHE, exist_ok=True)
        self.path = os.path.join(CACHE, name + ".lock")

    def __enter__(self):
        self.f = open(self.path, "w")
        fcntl.flock(self.f, fcntl.LOCK_EX)
        return self

    def __exit__(self, *a):
        fcntl.flock(self.f, fcntl.LOCK_UN)
        self.f.close()


def run(cmd, cwd=None, env=None, timeout=None, quiet=True):
    p = subprocess.run(cmd, cwd=cwd, env=env or ENV, timeout=timeout,
                       stdout=subprocess.PIPE, stderr=subprocess.STDOUT, text=True)
    return p.returncode, p.stdout


def build_harness(prop=None, release=False):
    """cargo build of the harness (binary of one property, or all) against /repo's current working tree, hooks on."""
    if REPO != "/repo":
        return build_harness_alt(prop, release)
    with Lock("cargo"):
        regenerate_registration()
        lock = os.path.join(HARNESS, "Cargo.lock")
        if not os.path.exists(lock):
            shutil.copy(os.path.join(REPO, "Cargo.lock"), lock)
        env = dict(ENV)
        env["RUSTFLAGS"] = (env.get("RUSTFLAGS", "") + " --cfg " + GUARD + " -Awarnings").strip()
        cmd = ["cargo", "build", "--offline", "--quiet"]
        if prop:
            cmd += ["--bin", prop]
        if release:
            cmd.append("--release")
        rc, out = run(cmd, cwd=HARNESS, env=env, timeout=1500)
        if rc != 0 and "Cargo.lock" in out:
            shutil.copy(os.path.join(REPO, "Cargo.lock"), lock)
            rc, out = run(cmd, cwd=HARNESS, env=env, timeout=1500)
        exe = os.path.join(TARGET, "release" if release else "debug", prop or "stam-verif-harness")
        return rc, out, exe


def build_harness_alt(prop, release=False):
    """VERIF_REPO=<tree>: build the harness against another copy of the repository (a scratch
    worktree with a seeded change) without touching /repo: a copy of harness/ with the path
    dependency redirected and its own target directory under .cache/alt/<name>/ (remove it when done)."""
    name = re.sub(r"[^A-Za-z0-9_.-]", "_", REPO.strip("/"))
    base = os.path.join(CACHE, "alt", name)
    hdir = os.path.join(base, "harness")
    with Lock("cargo-alt-" + name):
        regenerate_registration()
        os.makedirs(base, exist_ok=True)
        run(["rsync", "-a", "--delete", "--exclude", "Cargo.lock", "--exclude", ".cargo", HARNESS + "/", hdir + "/"])
        toml = open(os.path.join(HARNESS, "Cargo.toml")).read().replace('path = "/repo"', 'path = "%s"' % REPO)
        write_if_changed(os.path.join(hdir, "Cargo.toml"), toml)
        lock = os.path.join(hdir, "Cargo.lock")
        if not os.path.exists(lock):
            for cand in (os.path.join(REPO, "Cargo.lock"), os.path.join(HARNESS, "Cargo.lock"), "/repo/Cargo.lock"):
                if os.path.exists(cand):
                    shutil.copy(cand, lock)
                    break
        env = dict(ENV)
        env["CARGO_TARGET_DIR"] = os.path.join(base, "target")
        env["RUSTFLAGS"] = (env.get("RUSTFLAGS", "") + " --cfg " + GUARD + " -Awarnings").strip()
        cmd = ["cargo", "build", "--offline", "--quiet"]
        if prop:
            cmd += ["--bin", prop]
        if release:
            cmd.append("--release")
        rc, out = run(cmd, cwd=hdir, env=env, timeout=1500)
        exe = os.path.join(base, "target", "release" if release else "debug", prop or "stam-verif-harness")
        return rc, out, exe


def write_if_changed(path, content):
    if os.path.exists(path):
        with open(path) as f:
            if f.read() == content:
                return False
    os.makedirs(os.path.dirname(path), exist_ok=True)
    with open(path, "w") as f:
        f.write(content)
    return True


def property_ids_with(dirpath, pattern):
    """property ids Cxx for which <dirpath>/<pattern % id> exists, sorted."""
    out = []
    for n in range(1, 21):
        pid = "C%02d" % n
        if os.path.exists(os.path.join(dirpath, pattern % pid)):
            out.append(pid)
    return out


def harness_deps(pid):
    """property modules (lower-case) that harness/src/<pid>.rs refers to through crate::cNN, transitively."""
    seen = []
    todo = [pid.lower()]
    while todo:
        m = todo.pop()
        if m in seen:
            continue
        path = os.path.join(HARNESS, "src", m + ".rs")
        if not os.path.exists(path):
            continue
        seen.append(m)
        for d in re.findall(r"crate::(c\d\d)\b", open(path).read()):
            todo.append(d)
    return seen


def regenerate_registration():
    """Registration files are derived from the directory contents so that adding a
    property means adding files only: coq/_CoqProject (every .v under Base Model Spec
    Proofs Props Run Gen) and one harness binary per property (harness/src/bin/Cxx.rs
    for every harness/src/cxx.rs).  The extraction file and the OCaml driver are
    generated per property by build_driver."""
    vs = []
    for d in ("Base", "Model", "Spec", "Proofs", "Props", "Run", "Gen"):
        dd = os.path.join(COQ, d)
        if os.path.isdir(dd):
            for fn in sorted(os.listdir(dd)):
                if fn.endswith(".v") and not fn.startswith("."):
                    vs.append(d + "/" + fn)
    proj = "-Q . Stam\n-arg -w -arg -notation-overridden,-deprecated-hint-without-locality,-deprecated-instance-without-locality\n" + "".join(v + "\n" for v in vs)
    write_if_changed(os.path.join(COQ, "_CoqProject"), proj)
    bindir = os.path.join(HARNESS, "src", "bin")
    os.makedirs(bindir, exist_ok=True)
    for pid in ["C%02d" % n for n in range(1, 21)]:
        m = pid.lower()
        if not os.path.exists(os.path.join(HARNESS, "src", m + ".rs")):
            continue
        deps = harness_deps(pid)
        src = "// GENERATED by tools/common.py: harness binary of %s\n#![allow(dead_code, unused_imports)]\n" % pid
        src += "pub use stam_verif_harness::{out, rng, storegen, sx};\n"
        for d in sorted(deps):
            src += "#[path = \"../%s.rs\"]\npub mod %s;\n" % (d, d)
        src += ("fn main() {\n    stam_verif_harness::run_main(\n        |reqs, out| {\n            let ctx = %s::Ctx::new();\n"
                "            for r in reqs {\n                let (i, o, nt) = ctx.exec(r);\n                out.case(&i, &o, nt, r);\n            }\n        },\n"
                "        |out, tier, seed| {\n            %s::generate(out, tier, seed);\n            (%s::RULE, %s::EXHAUSTIVE)\n        },\n    );\n}\n") % (m, m, m, m)
        write_if_changed(os.path.join(bindir, pid + ".rs"), src)


def coq_project_files():
    files = []
    with open(os.path.join(COQ, "_CoqProject")) as f:
        for line in f:
            line = line.strip()
            if line.endswith(".v"):
                files.append(line)
    return files


def build_coq(targets=None, jobs=16):
    """full .vo build (never -vos) of the listed targets (default: everything)."""
    with Lock("coq"):
        regenerate_registration()
        mk = os.path.join(COQ, "Makefile")
        proj = os.path.join(COQ, "_CoqProject")
        if not os.path.exists(mk) or os.path.getmtime(mk) < os.path.getmtime(proj):
            rc, out = run(["coq_makefile", "-f", "_CoqProject", "-o", "Makefile"], cwd=COQ)
            if rc != 0:
                return rc, out
        cmd = ["timeout", "1500", "make", "-j%d" % jobs, "-k"]
        if targets:
            cmd += targets
        rc, out = run(cmd, cwd=COQ, timeout=1600)
        return rc, out


def build_driver(prop):
    """extraction (ExtrOcamlBasic only) of run_<prop> and dune build of the generic driver, in
    .cache/ocaml/<prop>/ (one executable per property, so a property whose model no longer
    compiles does not take the others down)."""
    with Lock("coq"):
        d = os.path.join(CACHE, "ocaml", prop)
        os.makedirs(d, exist_ok=True)
        ext = ("(* GENERATED.  Extraction of the executable model of %s.  ExtrOcamlBasic only: bool, option,\n"
               "   unit, prod, list, sumbool, sumor map to OCaml built-ins; nat, N, Z, positive stay the\n"
               "   extracted inductive types. *)\n"
               "From Coq Require Import Extraction ExtrOcamlBasic.\n"
               "From Stam Require Import Base.Sx Run.%s.\n"
               "Extraction \"model.ml\" sx_eqb run_%s.\n") % (prop, prop, prop)
        ext_v = os.path.join(d, "Extract_%s.v" % prop)
        write_if_changed(ext_v, ext)
        write_if_changed(os.path.join(d, "runs.ml"),
                         "open Model\nlet lookup (p : string) : sx -> sx =\n  match p with\n  | \"%s\" -> run_%s\n  | _ -> failwith (\"no model entry point for \" ^ p)\n" % (prop, prop))
        for fn in ("driver.ml", "dune", "dune-project"):
            write_if_changed(os.path.join(d, fn), open(os.path.join(OCAML, fn)).read())
        model = os.path.join(d, "model.ml")
        newest = os.path.getmtime(ext_v)
        for f in cone("Run/%s.v" % prop):
            vo = os.path.join(COQ, f[:-2] + ".vo")
            if os.path.exists(vo):
                newest = max(newest, os.path.getmtime(vo))
        if not os.path.exists(model) or os.path.getmtime(model) < newest:
            rc, out = run(["timeout", "600", "coqc", "-Q", COQ, "Stam", ext_v], cwd=d)
            if rc != 0:
                return rc, out, None
        rc, out = run(["timeout", "900", "dune", "build", "./driver.exe"], cwd=d)
        exe = os.path.join(d, "_build", "default", "driver.exe")
        return rc, out, exe


def cone(vfile):
    """transitive closure of `From Stam Require ...` starting at coq/<vfile>."""
    seen = []
    todo = [vfile]
    while todo:
        f = todo.pop()
        if f in seen or not os.path.exists(os.path.join(COQ, f)):
            continue
        seen.append(f)
        src = open(os.path.join(COQ, f)).read()
        src = re.sub(r"\(\*.*?\*\)", "", src, flags=re.S)
        for m in re.finditer(r"From\s+Stam\s+Require\s+(?:Import\s+|Export\s+)?(.*?)\.(?:\s|$)", src, flags=re.S):
            for mod in m.group(1).split():
                todo.append(mod.replace(".", "/") + ".v")
    return seen


PROOF_START = re.compile(r"^\s*(Theorem|Lemma|Corollary|Fact|Remark|Proposition|Example)\s+([A-Za-z0-9_']+)", re.M)
FORBIDDEN = re.compile(r"\b(Admitted|admit|Axiom|Axioms|Parameter|Parameters|Conjecture|Hypothesis|Variable|Variables|Hypotheses|Unset\s+Guard\s+Checking|bypass_check|Admit\s+Obligations|type-in-type|impredicative-set|Unset\s+Universe\s+Checking|Unset\s+Positivity\s+Checking)\b")


def strip_comments(src):
    out = []
    depth = 0
    i = 0
    while i < len(src):
        if src.startswith("(*", i):
            depth += 1
            i += 2
        elif src.startswith("*)", i) and depth > 0:
            depth -= 1
            i += 2
        else:
            if depth == 0:
                out.append(src[i])
            i += 1
    return "".join(out)


def audit_sources(files):
    """count proof obligations (statements closed by Qed/Defined) and look for
    forbidden declarations.  Variable/Hypothesis are allowed inside a Section only."""
    obligations = 0
    closed = 0
    problems = []
    names = []
    for f in files:
        src = strip_comments(open(os.path.join(COQ, f)).read())
        for m in PROOF_START.finditer(src):
            obligations += 1
            names.append(f + ":" + m.group(2))
        closed += len(re.findall(r"\b(Qed|Defined)\s*\.", src))
        depth = 0
        for line in src.split("\n"):
            if re.match(r"\s*Section\s+\w+", line):
                depth += 1
            if re.match(r"\s*End\s+\w+", line) and depth > 0:
                depth -= 1
            for m in FORBIDDEN.finditer(line):
                w = m.group(1)
                if w.split()[0] in ("Variable", "Variables", "Hypothesis", "Hypotheses") and depth > 0:
                    continue
                problems.append("%s: forbidden `%s`" % (f, w))
    return obligations, closed, names, problems


def now():
    return time.time()
