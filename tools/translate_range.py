"""Translator for FindTextSelectionsIter::init_textseliters (src/textselection.rs): which slice of
the position index the related-text search walks, and in which direction, per operator.  The
prologue (textlen / refbegin / refend and the shortcut for negated operators) must be exactly the
known one; every arm of `match self.operator { .. }` is read - pattern and body: optional
`let x = if <let Some(limit) = limit | allow_whitespace> { e } else { e };`, then one push of
`(self.resource.range(lo, hi), forward)`, the same in both branches of `if a <= b { .. } else { .. }`,
or the push of `self.resource.iter()` - and written to coq/Gen/RangeTable.v.  Proofs/AgreeRange.v
proves that the table denotes Model/Search.search_range.  Anything else raises TranslateError."""
import re
import translate as T
from translate_suborder import strip_comments, matching, split_top, norm
import translate_relpair as RP

PROLOGUE = ("let textlen = self.resource.textlen(); let refbegin = self.refset.begin().unwrap(); "
            "let refend = self.refset.end().unwrap(); if self.operator.negate() { "
            "self.textseliters.push((self.resource.iter(), true)); return; } match self.operator {")
ATOMS = {"refbegin": "RRb", "refend": "RRe", "textlen": "RLen", "WHITESPACE_LIMIT": "RWs"}
TOK = re.compile(r"\s*(\.saturating_sub|[()+/]|[A-Za-z_]\w*|\d+)")


class E:
    def __init__(self, s, binds, var):
        self.t, self.i, self.binds, self.var = [], 0, binds, var
        s = s.strip()
        j = 0
        while j < len(s):
            m = TOK.match(s, j)
            if not m:
                raise T.TranslateError("cannot tokenize expression: %s" % s[j:j + 40])
            self.t.append(m.group(1))
            j = m.end()

    def peek(self):
        return self.t[self.i] if self.i < len(self.t) else None

    def eat(self, x=None):
        tok = self.peek()
        if tok is None or (x is not None and tok != x):
            raise T.TranslateError("expected %s, got %s" % (x, tok))
        self.i += 1
        return tok

    def expr(self):
        a = self.term()
        while self.peek() == "+":
            self.eat()
            a = "(RAdd %s %s)" % (a, self.term())
        return a

    def term(self):
        a = self.postfix()
        while self.peek() == "/":
            self.eat()
            n = self.eat()
            if not n.isdigit():
                raise T.TranslateError("division by a non-literal")
            a = "(RDiv %s %s)" % (a, n)
        return a

    def postfix(self):
        a = self.atom()
        while self.peek() == ".saturating_sub":
            self.eat()
            self.eat("(")
            b = self.expr()
            self.eat(")")
            a = "(RSatSub %s %s)" % (a, b)
        return a

    def atom(self):
        tok = self.eat()
        if tok == "(":
            e = self.expr()
            self.eat(")")
            return e
        if tok.isdigit():
            return "(RLit %s)" % tok
        if tok in ATOMS:
            return ATOMS[tok]
        if tok == "limit" and "limit_value" in self.binds:
            return "RLim"
        if self.var is not None and tok == self.var:
            return "RVar"
        raise T.TranslateError("name not understood in a range expression: %s" % tok)


def expr(s, binds, var):
    p = E(s, binds, var)
    e = p.expr()
    if p.peek() is not None:
        raise T.TranslateError("trailing tokens in range expression: %s" % s)
    return e


def parse_push(s, binds, var):
    s = norm(s).rstrip(";").strip()
    if s == "self.textseliters.push((self.resource.iter(), true))":
        return "RAll"
    m = re.match(r"^self\.textseliters \.?push\(\( ?self\.resource ?\.range\((.*)\), (true|false),? ?\)\)$", s) or \
        re.match(r"^self\.textseliters\.push\(\( ?self\.resource ?\.range\((.*)\), (true|false),? ?\)\)$", s)
    if not m:
        raise T.TranslateError("push not understood: %s" % s[:200])
    args = split_top(m.group(1), ",")
    args = [a for a in args if norm(a)]
    if len(args) != 2:
        raise T.TranslateError("range() with %d arguments" % len(args))
    return "(RRange %s %s %s)" % (expr(args[0], binds, var), expr(args[1], binds, var), m.group(2))


def parse_body(body, binds):
    b = norm(body)
    if not (b.startswith("{") and b.endswith("}")):
        raise T.TranslateError("arm body without a block")
    b = b[1:-1].strip()
    m = re.match(r"^let (\w+) = if (let Some\(limit\) = limit|allow_whitespace) \{ (.*?) \} else \{ (.*?) \}; (.*)$", b, flags=re.S)
    if m:
        v, cond, e1, e2, rest = m.groups()
        if cond == "allow_whitespace":
            if "allow_whitespace" not in binds:
                raise T.TranslateError("allow_whitespace is not bound by the pattern")
            val = "(RIfWs %s %s)" % (expr(e1, binds, None), expr(e2, binds, None))
        else:
            if "limit_option" not in binds:
                raise T.TranslateError("limit is not bound by the pattern")
            val = "(RIfLim %s %s)" % (expr(e1, binds | {"limit_value"}, None), expr(e2, binds, None))
        return "(RLet %s %s)" % (val, parse_body2(rest, binds, v))
    return parse_body2(b, binds, None)


def parse_body2(b, binds, var):
    b = norm(b)
    m = re.match(r"^if ([\w ./()+]+?) <= ([\w ./()+]+?) \{ (.*?) \} else \{ (.*?) \}$", b, flags=re.S)
    if m:
        return "(RIfLe %s %s %s %s)" % (expr(m.group(1), binds, var), expr(m.group(2), binds, var),
                                        parse_push(m.group(3), binds, var), parse_push(m.group(4), binds, var))
    return parse_push(b, binds, var)


def parse_pattern(p):
    p = norm(p)
    if p == "_":
        return "mkrp true (mkpp Equals None None None)", set()
    m = re.match(r"^TextSelectionOperator::(\w+)\s*\{(.*)\}$", p)
    if not m or m.group(1) not in RP.RELS:
        raise T.TranslateError("pattern not understood: %s" % p)
    lim, binds = "None", set()
    for f in [norm(x) for x in split_top(m.group(2), ",") if norm(x)]:
        if f == "..":
            continue
        if f == "limit":
            binds.add("limit_option")
        elif f == "allow_whitespace":
            binds.add("allow_whitespace")
        elif re.match(r"^limit\s*:\s*Some\(limit\)$", f):
            lim = "(Some true)"
            binds.add("limit_value")
        else:
            raise T.TranslateError("pattern field not understood: %s" % f)
    return "mkrp false (mkpp %s None None %s)" % (m.group(1), lim), binds


@T.gen("RangeTable.v")
def range_arms():
    s = strip_comments(T.src("src/textselection.rs"))
    ms = list(re.finditer(r"fn init_textseliters\(&mut self\) \{", s))
    if len(ms) != 1:
        raise T.TranslateError("fn init_textseliters: %d occurrences" % len(ms))
    b0 = ms[0].end() - 1
    b1 = matching(s, b0, "{", "}")
    body = norm(s[b0 + 1:b1])
    if not body.startswith(PROLOGUE) or not body.endswith("}"):
        raise T.TranslateError("the prologue of init_textseliters changed: %s" % body[:260])
    text = body[len(PROLOGUE):-1]
    arms, i, n = [], 0, len(text)
    while True:
        while i < n and text[i] in " ,":
            i += 1
        if i >= n:
            break
        depth, j = 0, i
        while j < n:
            c = text[j]
            if c in "([{":
                depth += 1
            elif c in ")]}":
                depth -= 1
            elif depth == 0 and text.startswith("=>", j):
                break
            j += 1
        if j >= n:
            raise T.TranslateError("arm without =>")
        pat = text[i:j]
        j += 2
        while text[j] == " ":
            j += 1
        if text[j] != "{":
            raise T.TranslateError("arm body without a block")
        k = matching(text, j, "{", "}")
        bodytext = text[j:k + 1]
        i = k + 1
        pats, binds = [], None
        for a in split_top(pat, "|"):
            if not norm(a):
                continue
            pp, b = parse_pattern(a)
            pats.append(pp)
            binds = b if binds is None else (binds & b)
        arms.append((pats, parse_body(bodytext, binds or set())))
    if not arms:
        raise T.TranslateError("no arms")
    lines = ["(* GENERATED by tools/translate_range.py from src/textselection.rs (FindTextSelectionsIter::init_textseliters)",
             "   on every run. Do not edit. *)",
             "From Coq Require Import List.", "Import ListNotations.",
             "From Stam Require Import Model.Rel Model.RelArms Model.RangeArms.", "",
             "Definition range_arms : list rarm := ["]
    lines.append(";\n".join("  mkrarm [%s]\n    %s" % ("; ".join(p), b) for p, b in arms))
    lines.append("].")
    return "\n".join(lines) + "\n"
