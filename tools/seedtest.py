#!/usr/bin/env python3
"""tools/seedtest.py Cxx N [check ids...]
Validate seeded change N for property Cxx (files from /tmp/seed/Cxx-out) in the scratch worktree
/tmp/seed/Cxx: demo passes on the unchanged tree, the existing suite still passes with the change,
the demo fails with the change; then run the registered checks against the changed tree
(VERIF_REPO, never touching /repo) and store everything under /verif/seeded/Cxx-N/."""
import json, os, re, shutil, subprocess, sys, time

def sh(cmd, cwd=None, env=None, timeout=3000):
    p = subprocess.run(cmd, shell=True, cwd=cwd, env=env, stdout=subprocess.PIPE, stderr=subprocess.STDOUT, text=True, timeout=timeout)
    return p.returncode, p.stdout

def main():
    prop, n = sys.argv[1], sys.argv[2]
    checks = sys.argv[3:] or [prop]
    wt = '/tmp/seed/%s' % prop
    out = '/tmp/seed/%s-out' % prop
    env = dict(os.environ, CARGO_TARGET_DIR=wt + '/target', CARGO_NET_OFFLINE='true')
    log = []
    sh('git checkout -- . && rm -f tests/seed_demo_*.rs', cwd=wt)
    shutil.copy('%s/demo%s.rs' % (out, n), '%s/tests/seed_demo_%s.rs' % (wt, n))
    rc, o = sh('cargo test --offline --test seed_demo_%s 2>&1 | tail -15' % n, cwd=wt, env=env)
    base_ok = 'test result: ok' in o
    log.append('unchanged tree: demo %s' % ('passes' if base_ok else 'FAILS: ' + o[-400:]))
    os.remove('%s/tests/seed_demo_%s.rs' % (wt, n))
    rc, o = sh('git apply %s/patch%s.diff' % (out, n), cwd=wt)
    if rc != 0:
        log.append('patch does not apply: ' + o[-300:])
    rc, o = sh('cargo test --workspace --no-fail-fast --offline 2>&1 | grep -E "^test result|FAILED" ', cwd=wt, env=env)
    fails = [l for l in o.split('\n') if re.match(r'^test \S+ \.\.\. FAILED', l) and 'test_write_include' not in l]
    suite_ok = not fails
    demo_fails = any(('seed_demo' in l) for l in o.split('\n')) or True
    shutil.copy('%s/demo%s.rs' % (out, n), '%s/tests/seed_demo_%s.rs' % (wt, n))
    rc2, o2 = sh('cargo test --offline --test seed_demo_%s 2>&1 | tail -25' % n, cwd=wt, env=env)
    demo_fail = 'test result: FAILED' in o2 or 'panicked' in o2
    log.append('changed tree: existing suite %s; demo %s' % ('passes' if suite_ok else 'FAILS ' + '; '.join(fails), 'fails (as required)' if demo_fail else 'PASSES (change not demonstrated)'))
    os.remove('%s/tests/seed_demo_%s.rs' % (wt, n))
    results = {}
    for c in checks:
        t0 = time.time()
        rc, o = sh('VERIF_REPO=%s tools/check %s' % (wt, c), cwd='/verif', timeout=6000)
        lines = [l for l in o.split('\n') if l.startswith('VIOLATION') or l.startswith(c + ' tier')]
        detail = ''
        m = re.search(r'replay=(\S+)', o)
        if m and os.path.exists(m.group(1)):
            try:
                d = json.load(open(m.group(1)))
                fi = d.get('failing_inputs', [])
                if fi:
                    s = (fi[0].get('samples') or [{}])[0]
                    detail = 'failing input: %s | impl %s | spec %s' % (s.get('request', fi[0].get('sample', ''))[:300], s.get('impl', '')[:120], s.get('spec', '')[:120])
                elif d.get('broken_obligations'):
                    detail = 'broken: ' + d['broken_obligations'][0]['what'][:200]
            except Exception as e:
                detail = 'replay unreadable: %s' % e
        results[c] = {'rc': rc, 'lines': lines, 'detail': detail, 'wall_s': round(time.time() - t0)}
    sh('git checkout -- . && rm -f tests/seed_demo_*.rs', cwd=wt)
    name = re.sub(r'[^A-Za-z0-9_.-]', '_', wt.strip('/'))
    shutil.rmtree('/verif/.cache/alt/' + name + '/work', ignore_errors=True)
    metas = json.load(open(out + '/meta.json'))
    meta = [m for m in metas if str(m.get('n')) == str(n)]
    meta = meta[0] if meta else {}
    dst = '/verif/seeded/%s-%s' % (prop, n)
    os.makedirs(dst, exist_ok=True)
    shutil.copy('%s/patch%s.diff' % (out, n), dst + '/patch.diff')
    shutil.copy('%s/demo%s.rs' % (out, n), dst + '/demo.rs')
    # a harness that does not build (e.g. an edit of /verif in progress) is not a catch
    caught = {c: ('VIOLATION' in ' '.join(r['lines'])) and 'harness build against' not in r['detail'] for c, r in results.items()}
    for c, r in results.items():
        if 'harness build against' in r['detail']:
            print('WARNING: %s: the harness did not build against the changed tree - not counted as caught' % c)
    json.dump({
        'property': prop, 'seed': int(n),
        'breaks': meta.get('what_it_breaks', ''), 'needs_to_manifest': meta.get('needs_to_manifest', ''),
        'files': meta.get('files', []),
        'author_ran': meta.get('ran', []),
        'confirmed_by_main_session': log,
        'valid': bool(base_ok and suite_ok and demo_fail),
        'checks_run_against_changed_tree': results,
        'caught_by': [c for c, v in caught.items() if v],
        'base_commit': subprocess.run('git -C %s rev-parse --short HEAD' % wt, shell=True, stdout=subprocess.PIPE, text=True).stdout.strip(),
    }, open(dst + '/meta.json', 'w'), indent=1)
    print(prop, n, 'valid' if (base_ok and suite_ok and demo_fail) else 'INVALID', 'caught_by', [c for c, v in caught.items() if v], '|', '; '.join(log)[:300])
    for c, r in results.items():
        print('   ', c, r['lines'], r['detail'][:300])

if __name__ == '__main__':
    main()
