#!/usr/bin/env python3
"""debug helper: summarise the violation samples of the last run of a property"""
import json, sys
p = sys.argv[1]
n = int(sys.argv[2]) if len(sys.argv) > 2 else 5
d = json.load(open('/verif/evidence/replay/%s-20260926.json' % p))
for b in d['broken_obligations'][:5]:
    print('BROKEN', b['what'], b['detail'][:1200])
seen = set()
for v in d['failing_inputs']:
    print('count', v.get('count'), v.get('note', ''), v.get('class', ''))
    for s in v.get('samples', []):
        if len(sys.argv) > 3 and (s['impl'] == s['model']) != (sys.argv[3] == 'same'):
            continue
        key = (s['impl'][:60], s['spec'][:60])
        if key in seen:
            continue
        seen.add(key)
        print('REQ', s['request'][:900]); print(' sub', s['sub']); print(' impl ', s['impl'][:500]); print(' model', s['model'][:500]); print(' spec ', s['spec'][:500])
        n -= 1
        if n <= 0:
            sys.exit(0)
