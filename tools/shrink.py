#!/usr/bin/env python3
"""tools/shrink.py Cxx [request-file]   delta-debugging on the operation list of a failing request
(default: the first failing request of the last run).  Prints the minimal request and the
differing sub-case.  Uses the already built harness binary and driver."""
import json, os, subprocess, sys
sys.path.insert(0, os.path.dirname(os.path.abspath(__file__)))
import common as C

def parse(s):
    s = s.strip(); pos = 0
    def item():
        nonlocal pos
        while s[pos] == ' ': pos += 1
        if s[pos] == '(':
            pos += 1; out = []
            while True:
                while s[pos] == ' ': pos += 1
                if s[pos] == ')': pos += 1; return out
                out.append(item())
        st = pos
        while pos < len(s) and s[pos] not in ' ()': pos += 1
        return int(s[st:pos])
    return item()

def show(x):
    return str(x) if isinstance(x, int) else '(' + ' '.join(show(y) for y in x) + ')'

def main():
    prop = sys.argv[1]
    if len(sys.argv) > 2:
        req = open(sys.argv[2]).readline()
    else:
        req = open(os.path.join(C.EVIDENCE, 'replay', '%s-20260926.req' % prop)).readline()
    harness = os.path.join(C.TARGET, 'debug', prop)
    driver = os.path.join(C.CACHE, 'ocaml', prop, '_build', 'default', 'driver.exe')
    work = os.path.join(C.WORK, 'shrink'); os.makedirs(work, exist_ok=True)
    def fails(ops):
        rf = os.path.join(work, 'r.req'); open(rf, 'w').write(show(ops) + '\n')
        cf = os.path.join(work, 'r.cases')
        p = subprocess.run(['timeout', '60', harness, 'replay', rf, cf, os.path.join(work, 'r.stats')], capture_output=True, text=True)
        if p.returncode != 0: return None
        p = subprocess.run(['timeout', '60', driver, prop, cf, '3'], capture_output=True, text=True)
        try: d = json.loads(p.stdout)
        except Exception: return None
        if d['violations'] or d['known'] or d['model_divergence']: return d
        return None
    ops = parse(req)
    d = fails(ops)
    if not d:
        print('request does not fail'); return 1
    changed = True
    while changed:
        changed = False
        i = len(ops) - 1
        while i >= 0:
            cand = ops[:i] + ops[i+1:]
            r = fails(cand)
            if r:
                ops = cand; d = r; changed = True
            i -= 1
    print(show(ops))
    for s in (d['violation_samples'] + d['divergence_samples'])[:2]:
        print(' sub', s['sub']); print(' impl ', s['impl'][:700]); print(' model', s['model'][:700]); print(' spec ', s['spec'][:700])
    for k, v in d['known'].items(): print(' known', k, v['sample'][:600])
    open(os.path.join(work, 'min.req'), 'w').write(show(ops) + '\n')
    return 0

if __name__ == '__main__':
    sys.exit(main())
