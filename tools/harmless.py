#!/usr/bin/env python3
"""tools/harmless.py [N ...]
Behaviour-preserving rewrites of /repo (written by a session that saw only the repository):
/tmp/seed/H-out/patchN.diff + meta.json. For each: apply in the scratch worktree /tmp/seed/H
(brought to /repo's HEAD first), run every registered check against it (VERIF_REPO, /repo is
never touched), record which pass. A check that fails on one of these raises a false alarm.
Results: /verif/seeded/harmless/{patchN.diff, results.json}."""
import json, os, re, shutil, subprocess, sys, time
sys.path.insert(0, os.path.dirname(__file__))
import props as P

def sh(cmd, cwd=None, timeout=6000):
    p = subprocess.run(cmd, shell=True, cwd=cwd, stdout=subprocess.PIPE, stderr=subprocess.STDOUT, text=True, timeout=timeout)
    return p.returncode, p.stdout

wt, out, dst = '/tmp/seed/H', '/tmp/seed/H-out', '/verif/seeded/harmless'
os.makedirs(dst, exist_ok=True)
metas = {m['n']: m for m in json.load(open(out + '/meta.json'))}
ns = [int(x) for x in sys.argv[1:]] or sorted(metas)
head = sh('git -C /repo rev-parse HEAD')[1].strip()
sh('git checkout -q -- . && git checkout -q --detach %s' % head, cwd=wt)
resf = dst + '/results.json'
results = json.load(open(resf)) if os.path.exists(resf) else {}
for n in ns:
    rc, o = sh('git apply %s/patch%d.diff' % (out, n), cwd=wt)
    entry = {'n': n, 'files': metas[n].get('files'), 'what': metas[n].get('what'), 'why_equivalent': metas[n].get('why_equivalent'),
             'base_commit': head, 'applies': rc == 0, 'checks': {}}
    if rc != 0:
        entry['apply_error'] = o[-300:]
    else:
        shutil.copy('%s/patch%d.diff' % (out, n), '%s/patch%d.diff' % (dst, n))
        # one cargo build of all harness binaries against the rewritten tree (the per-check builds are then no-ops)
        sh('VERIF_REPO=%s python3 -c "import sys; sys.path.insert(0, \'tools\'); import common as C; print(C.build_harness_alt(None)[0])"' % wt, cwd='/verif')
        for c in sorted(P.PROPS):
            t0 = time.time()
            rc, o = sh('VERIF_REPO=%s tools/check %s' % (wt, c), cwd='/verif')
            line = [l for l in o.split('\n') if l.startswith(c + ' tier')]
            viol = [l for l in o.split('\n') if l.startswith('VIOLATION')]
            entry['checks'][c] = {'rc': rc, 'result': (line or ['?'])[0][-60:], 'violation': viol[:1], 'wall_s': round(time.time() - t0)}
            print(n, c, rc, (line or ['?'])[0][-40:], flush=True)
    sh('git checkout -q -- .', cwd=wt)
    results[str(n)] = entry
    json.dump(results, open(resf, 'w'), indent=1)
print('false alarms:', [(n, c) for n, e in results.items() for c, r in e['checks'].items() if r['rc'] != 0])
