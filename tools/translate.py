"""Translator: regenerates coq/Gen/*.v from /repo's current source on every run.
Each generator returns the text of one .v file or raises TranslateError; the
agreement theorems over the generated definitions live in coq/Agree/*.v and are
re-proved against what the code says now (see DESIGN.md section 2.2)."""
import os
import re
import common as C


class TranslateError(Exception):
    pass


GENERATORS = []  # (output file, function) -- filled below


def gen(name):
    def deco(f):
        GENERATORS.append((name, f))
        return f
    return deco


def src(path):
    with open(os.path.join(C.REPO, path)) as f:
        return f.read()


def regenerate():
    problems = []
    for name, f in GENERATORS:
        try:
            text = f()
            C.write_if_changed(os.path.join(C.COQ, "Gen", name), text)
        except Exception as e:  # TranslateError or anything the parser trips over
            problems.append({"file": "Gen/" + name, "detail": "%s: %s" % (type(e).__name__, e)})
            # make the dependent agreement proof fail loudly rather than reuse a stale file
            C.write_if_changed(os.path.join(C.COQ, "Gen", name),
                               "(* translator failed: %s *)\nDefinition translator_failed : True := I.\n" % str(e).replace("*)", "* )"))
    return problems


if __name__ == "__main__":
    for p in regenerate():
        print("PROBLEM", p)
import translate_c11
import translate_suborder
import translate_relpair
import translate_relset
import translate_relsets
import translate_range
