"""Translator for the test of one selection against a set:
`impl TestTextSelection for TextSelection { fn test_set(&self, operator, refset, resource) -> bool { match operator { ... } } }`
in src/textselection.rs.  Every arm is read - its patterns as in tools/translate_relpair.py, its body
as one of the statement forms of Model/RelArms.v (sstmt): the any-loop and the all-loop over the
pair test, the guard `if refset.is_empty() { return false; }` followed by an expression, the same
with the folded minimum of the members' begins / maximum of their ends, and the negation arm -
and written to coq/Gen/RelTsSetTable.v.  Proofs/AgreeRelSet.v proves that the interpretation of
this table (over the interpretation of the pair table) is Model/Rel.test_ts_set.
Anything else raises TranslateError."""
import re
import translate as T
from translate_suborder import strip_comments, matching, split_top, norm
import translate_relpair as RP

ANY = "{ for reftextsel in refset.iter() { if self.test(operator, reftextsel, resource) { return true; } } false }"
ALL = ("{ if refset.is_empty() { return false; } for reftextsel in refset.iter() { if !self.test(operator, reftextsel, resource) "
       "{ return false; } } true }")
GUARD = "{ if refset.is_empty() { return false; } "
TOGGLE = "!self.test_set(&operator.toggle_negate(), refset, resource)"
SET_ATOMS = {"self.begin": "NSb", "self.end": "NSe", "WHITESPACE_LIMIT": "NWsLimit"}
FOLD_RE = re.compile(
    r"^let mut (\w+) = None; for (?P<it>\w+) in refset\.iter\(\) \{ if (\w+)\.is_none\(\) \|\| (?P=it)\.(begin|end) (<|>) (\w+)\.unwrap\(\) "
    r"\{ (\w+) = Some\((?P=it)\.(begin|end)\); \} \} (.*)$", re.S)


def parse_expr(text, binds, foldvar):
    b = text
    b = RP.TEXTWS_RE.sub(lambda m: "TEXTWS(%s, %s)" % (m.group(1), m.group(2)), b)
    b = b.replace("refset.leftmost().unwrap().begin()", "LEFTB").replace("refset.rightmost().unwrap().end()", "RIGHTE")
    if foldvar:
        b = re.sub(r"Some\(([\w.]+)\) == %s\b" % re.escape(foldvar), r"SOMEEQ(\1)", b)
        b = b.replace("if let Some(%s) = %s {" % (foldvar, foldvar), "if IFFOLD {")
    if re.search(r"\b(resource|refset|gap|reftextsel)\b", b) or "let Some" in b:
        raise T.TranslateError("expression not understood: %s" % b[:300])
    p = RP.P(RP.tokenize(b), binds, foldvar=foldvar, atoms=SET_ATOMS)
    e = p.expr()
    if p.peek() is not None:
        raise T.TranslateError("trailing tokens: %s" % " ".join(p.t[p.i:p.i + 8]))
    return p.boolean(e)


def parse_stmt(body, binds):
    b = norm(body).rstrip(",").strip()
    if TOGGLE in b:
        inner = b
        m = re.match(r"^\{\s*(.*?)\s*\}$", b, flags=re.S)
        if m:
            inner = norm(m.group(1))
        if inner != TOGGLE:
            raise T.TranslateError("negation arm not understood: %s" % b[:200])
        return "SToggle"
    # the loops written with Iterator::any / Iterator::all
    b = re.sub(r"^\{ refset\.iter\(\) ?\.any\(\|(\w+)\| self\.test\(operator, \1, resource\)\) \}$",
               "{ for reftextsel in refset.iter() { if self.test(operator, reftextsel, resource) { return true; } } false }", b)
    b = re.sub(r"^\{ if refset\.is_empty\(\) \{ return false; \} refset\.iter\(\) ?\.all\(\|(\w+)\| self\.test\(operator, \1, resource\)\) \}$",
               "{ if refset.is_empty() { return false; } for reftextsel in refset.iter() { if !self.test(operator, reftextsel, resource) { return false; } } true }", b)
    b = re.sub(r"^\{ !refset\.is_empty\(\) && refset\.iter\(\) ?\.all\(\|(\w+)\| self\.test\(operator, \1, resource\)\) \}$",
               "{ if refset.is_empty() { return false; } for reftextsel in refset.iter() { if !self.test(operator, reftextsel, resource) { return false; } } true }", b)
    # the loop variable may have any name
    if re.match(r"^\{ for (\w+) in refset\.iter\(\) \{ if self\.test\(operator, \1, resource\) \{ return true; \} \} false \}$", b):
        return "SAny"
    if re.match(r"^\{ if refset\.is_empty\(\) \{ return false; \} for (\w+) in refset\.iter\(\) \{ if !self\.test\(operator, \1, resource\) "
                r"\{ return false; \} \} true \}$", b):
        return "SAllNonEmpty"
    if not (b.startswith(GUARD) and b.endswith("}")):
        raise T.TranslateError("arm body not understood: %s" % b[:300])
    rest = b[len(GUARD):-1].strip()
    m = FOLD_RE.match(rest)
    if m:
        v = m.group(1)
        if not (m.group(3) == v and m.group(6) == v and m.group(7) == v):
            raise T.TranslateError("fold over different variables: %s" % rest[:200])
        field, cmp_, field2 = m.group(4), m.group(5), m.group(8)
        if (field, cmp_, field2) == ("begin", "<", "begin"):
            kind = "SFoldMinBegin"
        elif (field, cmp_, field2) == ("end", ">", "end"):
            kind = "SFoldMaxEnd"
        else:
            raise T.TranslateError("fold not understood: other.%s %s .. Some(other.%s)" % (field, cmp_, field2))
        return "(%s %s)" % (kind, parse_expr(m.group(9).strip(), binds, v))
    if "for " in rest or "let mut" in rest or "return" in rest:
        raise T.TranslateError("statement not understood: %s" % rest[:300])
    return "(SNonEmpty %s)" % parse_expr(rest, binds, None)


def parse_arms(text):
    arms, i, n = [], 0, len(text)
    while True:
        while i < n and text[i] in " \n\t\r,":
            i += 1
        if i >= n:
            break
        depth, j = 0, i
        while j < n:
            c = text[j]
            if c in "([{":
                depth += 1
            elif c in ")]}":
                depth -= 1
            elif depth == 0 and text.startswith("=>", j):
                break
            j += 1
        if j >= n:
            raise T.TranslateError("arm without =>")
        pat = text[i:j]
        if re.search(r"\bif\b", pat):
            raise T.TranslateError("guarded arm: %s" % norm(pat))
        j += 2
        while text[j] in " \n\t\r":
            j += 1
        if text[j] != "{":
            raise T.TranslateError("arm body without a block")
        k = matching(text, j, "{", "}")
        body = text[j:k + 1]
        i = k + 1
        pats, binds = [], None
        for a in split_top(pat, "|"):
            if not norm(a):
                continue
            pp, b = RP.parse_pattern(a)
            pats.append(pp)
            binds = b if binds is None else (binds & b)
        arms.append((pats, parse_stmt(body, binds or set())))
    return arms


def set_test_source():
    s = strip_comments(T.src("src/textselection.rs"))
    m = re.search(r"impl TestTextSelection for TextSelection \{", s)
    if not m:
        raise T.TranslateError("impl TestTextSelection for TextSelection not found")
    start = m.end() - 1
    end = matching(s, start, "{", "}")
    impl = s[start + 1:end]
    m = re.search(r"fn test_set\(\s*&self,\s*operator: &TextSelectionOperator,\s*refset: &TextSelectionSet,\s*resource: &TextResource,?\s*\) -> bool \{", impl)
    if not m:
        raise T.TranslateError("fn test_set(&self, operator, refset, resource) -> bool not found")
    b0 = m.end() - 1
    b1 = matching(impl, b0, "{", "}")
    body = norm(impl[b0 + 1:b1])
    m = re.match(r"^match operator \{(.*)\}$", body, flags=re.S)
    if not m:
        raise T.TranslateError("the body of test_set is not a single `match operator { .. }`")
    return m.group(1)


@T.gen("RelTsSetTable.v")
def relset_arms():
    arms = parse_arms(set_test_source())
    if not arms:
        raise T.TranslateError("no arms")
    lines = ["(* GENERATED by tools/translate_relset.py from src/textselection.rs (impl TestTextSelection for",
             "   TextSelection, fn test_set) on every run. Do not edit. *)",
             "From Coq Require Import List.", "Import ListNotations.",
             "From Stam Require Import Model.Rel Model.RelArms.", "",
             "Definition ts_set_arms : list sarm := ["]
    rows = []
    for pats, body in arms:
        rows.append("  mksarm [%s]\n    %s" % ("; ".join(pats), body))
    lines.append(";\n".join(rows))
    lines.append("].")
    return "\n".join(lines) + "\n"
