"""Translator for the comparator of AnnotationStore::subselectors() (src/annotationstore.rs):
the `match (a, b) { ... }` inside `tmp.sort_unstable_by(|a, b| ...)` is read arm by arm and
written to coq/Gen/SubOrderTable.v as a first-match table

    Definition arms : list arm := [ mkarm [(KText, KText); ...] AText; mkarm [(KAnnNone, KAnnNone)] (ACmp 0); ... ].

Proofs/AgreeSubOrder.v proves that the interpretation of this table is Model/SubOrder.leaf_cmp
(the comparator the theorems of Proofs/SubOrder.v are about), so those theorems are re-checked
against what the source says on every run.  Anything the translator does not understand raises
TranslateError: the agreement proof then fails loudly instead of reusing a stale table.

Understood arm bodies: Ordering::Less / Greater / Equal; `x.cmp(y)` with x, y the i-th binder of
the left / right pattern; `(x, y).cmp(&(x2, y2))` likewise; and the block that compares two
selectors with text (same resource: the text selections, else the resources)."""
import re
import translate as T

KINDS = {
    "TextSelector": "KText",
    "ResourceSelector": "KRes",
    "DataSetSelector": "KSet",
    "DataKeySelector": "KKey",
    "AnnotationDataSelector": "KData",
}

TEXT_BODY = ("{ if res == res2 { let resource: &TextResource = self.get(*res).expect(\"resource must resolve\"); "
             "let textselection: &TextSelection = resource.get(*tsel).expect(\"textselection must resolve\"); "
             "let textselection2: &TextSelection = resource.get(*tsel2).expect(\"textselection must resolve\"); "
             "textselection.cmp(textselection2) } else { res.cmp(res2) } }")


def strip_comments(s):
    s = re.sub(r"//[^\n]*", "", s)
    return re.sub(r"/\*.*?\*/", "", s, flags=re.S)


def matching(s, i, open_c, close_c):
    depth = 0
    j = i
    while j < len(s):
        c = s[j]
        if c == '"':
            j += 1
            while s[j] != '"':
                if s[j] == "\\":
                    j += 1
                j += 1
        elif c == open_c:
            depth += 1
        elif c == close_c:
            depth -= 1
            if depth == 0:
                return j
        j += 1
    raise T.TranslateError("unbalanced %s" % open_c)


def split_top(s, sep):
    """split at occurrences of sep outside (), [], {} and strings"""
    out, depth, cur, i = [], 0, [], 0
    while i < len(s):
        c = s[i]
        if c == '"':
            j = i + 1
            while s[j] != '"':
                if s[j] == "\\":
                    j += 1
                j += 1
            cur.append(s[i:j + 1])
            i = j + 1
            continue
        if c in "([{":
            depth += 1
        elif c in ")]}":
            depth -= 1
        if depth == 0 and s.startswith(sep, i):
            out.append("".join(cur))
            cur = []
            i += len(sep)
            continue
        cur.append(c)
        i += 1
    out.append("".join(cur))
    return out


def norm(s):
    return re.sub(r"\s+", " ", s).strip()


def parse_side(p):
    """one side of a tuple pattern -> (kind, binders)"""
    p = norm(p)
    if p == "_":
        return "KAny", []
    m = re.match(r"^Selector::(\w+)\s*\((.*)\)$", p)
    if not m:
        m2 = re.match(r"^Selector::(\w+)\s*\{", p)
        raise T.TranslateError("pattern not understood: %s" % p if not m2 else "struct pattern in comparator: %s" % p)
    name, args = m.group(1), m.group(2)
    if name == "AnnotationSelector":
        a = [norm(x) for x in split_top(args, ",")]
        if a == [".."]:
            return "KAnnAny", []
        if len(a) != 2:
            raise T.TranslateError("AnnotationSelector pattern: %s" % p)
        if a[1] == "None":
            return "KAnnNone", [a[0]]
        if a[1] == "Some(_)":
            return "KAnnText", [a[0]]
        m3 = re.match(r"^Some\(\((.*)\)\)$", a[1])
        if m3:
            return "KAnnText", [a[0]] + [norm(x) for x in split_top(m3.group(1), ",")]
        if a[1] == "_":
            return "KAnnAny", [a[0]]
        raise T.TranslateError("AnnotationSelector pattern: %s" % p)
    if name not in KINDS:
        raise T.TranslateError("selector kind in comparator: %s" % name)
    a = [norm(x) for x in split_top(args, ",")]
    return KINDS[name], ([] if a == [".."] else a)


def parse_alt(alt):
    alt = norm(alt)
    if alt == "_":
        return ("KAny", []), ("KAny", [])
    if not (alt.startswith("(") and matching(alt, 0, "(", ")") == len(alt) - 1):
        raise T.TranslateError("alternative not a pair: %s" % alt)
    sides = split_top(alt[1:-1], ",")
    sides = [x for x in sides if norm(x)]
    if len(sides) != 2:
        raise T.TranslateError("alternative not a pair: %s" % alt)
    return parse_side(sides[0]), parse_side(sides[1])


def action(body, alts):
    b = norm(body).rstrip(",").strip()
    m = re.match(r"^\{\s*(.*?)\s*\}$", b, flags=re.S)
    simple = norm(m.group(1)) if m and ";" not in m.group(1) and "if " not in m.group(1) else b
    if simple in ("Ordering::Less", "Ordering::Greater", "Ordering::Equal"):
        return {"Ordering::Less": "ALt", "Ordering::Greater": "AGt", "Ordering::Equal": "AEq"}[simple]
    if b == TEXT_BODY:
        # every alternative must bind res, tsel (left) and res2, tsel2 (right) at the text positions
        for (ka, ba), (kb, bb) in alts:
            la = ba[:2] if ka == "KText" else ba[1:3]
            lb = bb[:2] if kb == "KText" else bb[1:3]
            if ka not in ("KText", "KAnnText") or kb not in ("KText", "KAnnText") or la != ["res", "tsel"] or lb != ["res2", "tsel2"]:
                raise T.TranslateError("text comparison arm binds %s / %s" % (ba, bb))
        return "AText"
    m = re.match(r"^(\w+)\.cmp\((\w+)\)$", simple)
    if m:
        idx = set()
        for (ka, ba), (kb, bb) in alts:
            if m.group(1) not in ba or m.group(2) not in bb or ba.index(m.group(1)) != bb.index(m.group(2)):
                raise T.TranslateError("cmp of %s and %s does not compare the same field" % (m.group(1), m.group(2)))
            idx.add(ba.index(m.group(1)))
        if len(idx) != 1:
            raise T.TranslateError("cmp arm with alternatives on different fields")
        return "(ACmp %d)" % idx.pop()
    m = re.match(r"^\((\w+), (\w+)\)\.cmp\(&\((\w+), (\w+)\)\)$", simple)
    if m:
        idx = set()
        for (ka, ba), (kb, bb) in alts:
            try:
                i, j, i2, j2 = ba.index(m.group(1)), ba.index(m.group(2)), bb.index(m.group(3)), bb.index(m.group(4))
            except ValueError:
                raise T.TranslateError("pair cmp uses an unbound name: %s" % simple)
            if (i, j) != (i2, j2):
                raise T.TranslateError("pair cmp compares different fields: %s" % simple)
            idx.add((i, j))
        if len(idx) != 1:
            raise T.TranslateError("pair cmp arm with alternatives on different fields")
        i, j = idx.pop()
        return "(ACmp2 %d %d)" % (i, j)
    raise T.TranslateError("arm body not understood: %s" % b[:200])


def parse_arms(text):
    """the text between the braces of the match -> [(alts, action)]"""
    arms = []
    i = 0
    n = len(text)
    while True:
        while i < n and text[i] in " \n\t\r,":
            i += 1
        if i >= n:
            break
        # pattern: up to the top-level '=>'
        depth, j = 0, i
        while j < n:
            c = text[j]
            if c in "([{":
                depth += 1
            elif c in ")]}":
                depth -= 1
            elif depth == 0 and text.startswith("=>", j):
                break
            j += 1
        if j >= n:
            raise T.TranslateError("arm without =>")
        pat = text[i:j]
        if re.search(r"\bif\b", pat):
            raise T.TranslateError("guarded arm in comparator: %s" % norm(pat))
        j += 2
        while text[j] in " \n\t\r":
            j += 1
        if text[j] == "{":
            k = matching(text, j, "{", "}")
            body = text[j:k + 1]
            i = k + 1
        else:
            depth, k = 0, j
            while k < n:
                c = text[k]
                if c in "([{":
                    depth += 1
                elif c in ")]}":
                    depth -= 1
                elif c == "," and depth == 0:
                    break
                k += 1
            body = text[j:k]
            i = k + 1
        alts = [parse_alt(a) for a in split_top(pat, "|") if norm(a)]
        arms.append((alts, action(body, alts)))
    return arms


@T.gen("SubOrderTable.v")
def suborder_arms():
    s = strip_comments(T.src("src/annotationstore.rs"))
    m = re.search(r"tmp\.sort_unstable_by\(\|a, b\| match \(a, b\) \{", s)
    if not m:
        raise T.TranslateError("sort_unstable_by(|a, b| match (a, b) { not found in subselectors()")
    if len(re.findall(r"sort_unstable_by\(\|a, b\| match \(a, b\)", s)) != 1:
        raise T.TranslateError("more than one comparator of this shape")
    start = m.end() - 1
    end = matching(s, start, "{", "}")
    arms = parse_arms(s[start + 1:end])
    if not arms:
        raise T.TranslateError("no arms")
    lines = ["(* GENERATED by tools/translate_suborder.py from src/annotationstore.rs (subselectors, the comparator",
             "   of sort_unstable_by) on every run. Do not edit. *)",
             "From Coq Require Import List.", "Import ListNotations.",
             "From Stam Require Import Model.SubOrderArms.", "",
             "Definition arms : list arm := ["]
    rows = []
    for alts, act in arms:
        rows.append("  mkarm [%s] %s" % ("; ".join("(%s, %s)" % (a[0], b[0]) for a, b in alts), act))
    lines.append(";\n".join(rows))
    lines.append("].")
    return "\n".join(lines) + "\n"
