#!/usr/bin/env python3
"""Writes MANIFEST.json from tools/props.py (claimed checks) + the list of unclaimed properties."""
import json
import os
import sys
sys.path.insert(0, os.path.dirname(os.path.abspath(__file__)))
import props as P

VERIF = os.path.dirname(os.path.dirname(os.path.abspath(__file__)))
ids = [json.loads(l)["id"] for l in open(os.path.join(VERIF, "properties.jsonl"))]
checks = []
na = []
for pid in ids:
    cfg = P.PROPS.get(pid)
    if cfg and cfg.get("claimed", True):
        checks.append({
            "property_id": pid,
            "quick_cmd": "tools/check %s --tier quick" % pid,
            "thorough_cmd": "tools/check %s --tier thorough" % pid,
            "evidence_file": "/verif/evidence/%s.json" % pid,
            "replay_cmd_template": "tools/check %s --replay {path}" % pid,
            "engine": "coq-model+correspondence",
            "level_claimed": {
                "category": "proof",
                "text": cfg["level_text"],
                "design_ref": cfg.get("design_ref", "DESIGN.md section 4 (%s)" % pid),
            },
            "level_note": cfg["level_note"],
            "technique": cfg.get("technique", "Coq 8.16 theorems over a hand-written executable model + correspondence run of the extracted model against the implementation"),
        })
    else:
        na.append({"property_id": pid, "reason": P.UNCLAIMED.get(pid, "check not built yet in this development; no claim is made")})
m = {
    "version": 1,
    "setup_cmd": "tools/setup",
    "hooks": {
        "guard": "stam_verif",
        "enable": "RUSTFLAGS=\"--cfg stam_verif\" (set by tools/check when it builds harness/ against /repo)",
        "baseline_off_cmd": "cd /repo && cargo nextest run --workspace --no-fail-fast --tool-config-file pb:/w/lib/nextest.toml --profile pb --test-threads 8 --offline || cargo test --workspace --no-fail-fast --offline",
        "source_commits": P.HOOK_COMMITS,
        "add_only": True,
    },
    "engines": [
        {"name": "coq-model+correspondence", "path": "/verif/coq, /verif/ocaml, /verif/harness, /verif/tools",
         "serves_properties": [c["property_id"] for c in checks],
         "kind_free_text": "Coq 8.16.1 development (models, specs, theorems), extraction to OCaml (ExtrOcamlBasic only), generic comparison driver, Rust harness with a path dependency on /repo, python orchestrator"}
    ],
    "checks": checks,
    "not_applicable": na,
    "notes": "See DESIGN.md. Every check prints KNOWN-FINDING lines for classes listed in KNOWN_FINDINGS.txt and exits 1 with a VIOLATION line otherwise; `no-failing-input-found` ends the line when only a proof obligation / the translator / the correspondence broke.",
}
json.dump(m, open(os.path.join(VERIF, "MANIFEST.json"), "w"), indent=1)
print("claimed:", [c["property_id"] for c in checks])
