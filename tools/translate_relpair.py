"""Translator for the pair test of the relation operators:
`impl TestTextSelection for TextSelection { fn test(&self, operator, reftextsel, resource) -> bool { match operator { ... } } }`
in src/textselection.rs.  Every arm of the match is read - its patterns (operator, all / negate /
limit as far as mentioned) and its body as an expression tree - and written to
coq/Gen/RelPairTable.v as a first-match table

    Definition pair_arms : list parm := [ mkparm [mkpp Equals None (Some false) None; ...] (PExpr BTsEq); ... ].

Proofs/AgreeRelPair.v proves that the interpretation of this table (Model/RelArms.v: short-circuit
&& / ||, checked usize subtraction) is Model/Rel.test_pair for every operator, text and pair of
selections - so the theorems of C13 (and of C06, which are about test_pair) are re-checked against
what the source says now, including that no subtraction underflows.  Anything the translator does
not understand raises TranslateError: the agreement proof then fails loudly.

Understood bodies: boolean expressions over self.begin / self.end / reftextsel.begin /
reftextsel.end / *limit / WHITESPACE_LIMIT / integer literals with && || ! == != < <= > >= and
binary minus and plus, `self == reftextsel`, `if c { .. } else if .. else { .. }`, one `let x = e;` per block,
the whitespace test of the gap (text_by_offset + chars().all(is_whitespace)), and the negation arm
`!self.test(&operator.toggle_negate(), reftextsel, resource)`."""
import re
import translate as T
from translate_suborder import strip_comments, matching, split_top, norm

RELS = ["Equals", "Overlaps", "Embeds", "Embedded", "Before", "After", "Precedes", "Succeeds",
        "SameBegin", "SameEnd", "InSet", "SameRange"]

TEXTWS_RE = re.compile(
    r"if let Ok\(gap\) = resource\.text_by_offset\(&Offset::simple\(([\w.]+), ([\w.]+)\)\) "
    r"\{ gap\.chars\(\)\.all\(\|c\| c\.is_whitespace\(\)\) \} else \{ false \}")
TOGGLE = "!self.test(&operator.toggle_negate(), reftextsel, resource)"

ATOMS = {"self.begin": "NSb", "self.end": "NSe", "reftextsel.begin": "NRb", "reftextsel.end": "NRe",
         "WHITESPACE_LIMIT": "NWsLimit"}


def parse_pattern(p):
    p = norm(p)
    m = re.match(r"^TextSelectionOperator::(\w+)\s*\{(.*)\}$", p)
    if not m:
        raise T.TranslateError("pattern not understood: %s" % p)
    name, fields = m.group(1), m.group(2)
    if name not in RELS:
        raise T.TranslateError("unknown operator %s" % name)
    allv, neg, lim = "None", "None", "None"
    binds = set()
    for f in [norm(x) for x in split_top(fields, ",") if norm(x)]:
        if f == "..":
            continue
        m2 = re.match(r"^(\w+)\s*:\s*(.+)$", f)
        if m2:
            k, v = m2.group(1), norm(m2.group(2))
            if k == "all" and v in ("true", "false"):
                allv = "(Some %s)" % v
            elif k == "negate" and v in ("true", "false"):
                neg = "(Some %s)" % v
            elif k == "limit" and v == "Some(limit)":
                lim = "(Some true)"
                binds.add("limit")
            elif k == "limit" and v == "None":
                lim = "(Some false)"
            elif k == "limit" and v == "_":
                pass
            else:
                raise T.TranslateError("pattern field not understood: %s" % f)
        elif f in ("allow_whitespace", "limit", "all", "negate"):
            if f == "limit":
                # binds the Option itself: a body using `*limit` on it would not be a number
                raise T.TranslateError("pattern binds the limit option: %s" % p)
            binds.add(f)
        else:
            raise T.TranslateError("pattern field not understood: %s" % f)
    return "mkpp %s %s %s %s" % (name, allv, neg, lim), binds


TOKEN_RE = re.compile(r"\s*(TEXTWS|TOGGLE|TSEQ|IFFOLD|SOMEEQ|LEFTB|RIGHTE|\|\||&&|>=|<=|==|!=|[<>!(){};,=*+-]|[A-Za-z_][\w.]*|\d+)")


def tokenize(s):
    toks, i = [], 0
    s = s.strip()
    while i < len(s):
        m = TOKEN_RE.match(s, i)
        if not m:
            raise T.TranslateError("cannot tokenize: %s" % s[i:i + 40])
        toks.append(m.group(1))
        i = m.end()
    return toks


class P:
    """recursive descent; every node is ('n', coq) for a number or ('b', coq) for a boolean"""

    def __init__(self, toks, binds, foldvar=None, atoms=None):
        self.t, self.i, self.binds, self.var = toks, 0, binds, None
        self.foldvar, self.atoms = foldvar, (ATOMS if atoms is None else atoms)

    def peek(self):
        return self.t[self.i] if self.i < len(self.t) else None

    def eat(self, x=None):
        tok = self.peek()
        if tok is None or (x is not None and tok != x):
            raise T.TranslateError("expected %s, got %s" % (x, tok))
        self.i += 1
        return tok

    def num(self, node):
        if node[0] != "n":
            raise T.TranslateError("number expected: %s" % node[1])
        return node[1]

    def boolean(self, node):
        if node[0] != "b":
            raise T.TranslateError("boolean expected: %s" % node[1])
        return node[1]

    def block(self):
        self.eat("{")
        if self.peek() == "let":
            self.eat("let")
            name = self.eat()
            self.eat("=")
            v = self.num(self.expr())
            self.eat(";")
            if self.var is not None:
                raise T.TranslateError("nested let")
            self.var = name
            body = self.boolean(self.expr())
            self.var = None
            self.eat("}")
            return ("b", "(BLet %s %s)" % (v, body))
        e = self.expr()
        self.eat("}")
        return e

    def expr(self):
        if self.peek() == "if":
            return self.ifexpr()
        return self.orexpr()

    def ifexpr(self):
        self.eat("if")
        if self.peek() == "IFFOLD":
            self.eat()
            c = None
        else:
            c = self.boolean(self.orexpr())
        t = self.boolean(self.block())
        self.eat("else")
        e = self.boolean(self.ifexpr() if self.peek() == "if" else self.block())
        if c is None:
            return ("b", "(BIfFold %s %s)" % (t, e))
        return ("b", "(BIf %s %s %s)" % (c, t, e))

    def orexpr(self):
        a = self.andexpr()
        while self.peek() == "||":
            self.eat()
            b = self.andexpr()
            a = ("b", "(BOr %s %s)" % (self.boolean(a), self.boolean(b)))
        return a

    def andexpr(self):
        a = self.cmpexpr()
        while self.peek() == "&&":
            self.eat()
            b = self.cmpexpr()
            a = ("b", "(BAnd %s %s)" % (self.boolean(a), self.boolean(b)))
        return a

    def cmpexpr(self):
        a = self.arith()
        op = self.peek()
        if op in (">=", "<=", "<", ">", "==", "!="):
            self.eat()
            b = self.arith()
            x, y = self.num(a), self.num(b)
            return ("b", {">=": "(BLe %s %s)" % (y, x), "<=": "(BLe %s %s)" % (x, y), "<": "(BLt %s %s)" % (x, y),
                          ">": "(BLt %s %s)" % (y, x), "==": "(BEq %s %s)" % (x, y), "!=": "(BNot (BEq %s %s))" % (x, y)}[op])
        return a

    def arith(self):
        a = self.atom()
        while self.peek() in ("-", "+"):
            op = self.eat()
            b = self.atom()
            a = ("n", "(%s %s %s)" % ("NSub" if op == "-" else "NAdd", self.num(a), self.num(b)))
        return a

    def atom(self):
        tok = self.eat()
        if tok == "(":
            e = self.expr()
            self.eat(")")
            return e
        if tok == "{":
            self.i -= 1
            return self.block()
        if tok == "!":
            return ("b", "(BNot %s)" % self.boolean(self.atom()))
        if tok == "*":
            name = self.eat()
            if name != "limit" or "limit" not in self.binds:
                raise T.TranslateError("dereference of %s" % name)
            return ("n", "NLim")
        if tok == "true":
            return ("b", "BTrue")
        if tok == "false":
            return ("b", "BFalse")
        if tok == "TSEQ":
            return ("b", "BTsEq")
        if tok == "TEXTWS":
            self.eat("(")
            a = self.num(self.arith())
            self.eat(",")
            b = self.num(self.arith())
            self.eat(")")
            return ("b", "(BTextWs %s %s)" % (a, b))
        if tok == "SOMEEQ":
            self.eat("(")
            a = self.num(self.arith())
            self.eat(")")
            return ("b", "(BSomeEqFold %s)" % a)
        if tok == "LEFTB":
            return ("n", "NLeftB")
        if tok == "RIGHTE":
            return ("n", "NRightE")
        if tok.isdigit():
            return ("n", "(NLit %s)" % tok)
        if tok in self.atoms:
            return ("n", self.atoms[tok])
        if self.foldvar is not None and tok == self.foldvar:
            return ("n", "NFold")
        if tok == "allow_whitespace":
            if tok not in self.binds:
                raise T.TranslateError("allow_whitespace is not bound by the pattern")
            return ("b", "BAllowWs")
        if self.var is not None and tok == self.var:
            return ("n", "NVar")
        raise T.TranslateError("name not understood: %s" % tok)


def parse_body(body, binds):
    b = norm(body).rstrip(",").strip()
    b = b.replace("self == reftextsel", "TSEQ")
    if TOGGLE in b:
        inner = b
        m = re.match(r"^\{\s*(.*?)\s*\}$", b, flags=re.S)
        if m:
            inner = norm(m.group(1))
        if inner != TOGGLE:
            raise T.TranslateError("negation arm not understood: %s" % b[:200])
        return "PToggle"
    b = TEXTWS_RE.sub(lambda m: "TEXTWS(%s, %s)" % (m.group(1), m.group(2)), b)
    if re.search(r"\b(resource|gap)\b", b):
        raise T.TranslateError("use of the resource not understood: %s" % b[:300])
    p = P(tokenize(b), binds)
    e = p.expr()
    if p.peek() is not None:
        raise T.TranslateError("trailing tokens in arm body: %s" % " ".join(p.t[p.i:p.i + 8]))
    return "(PExpr %s)" % p.boolean(e)


def parse_arms(text):
    arms, i, n = [], 0, len(text)
    while True:
        while i < n and text[i] in " \n\t\r,":
            i += 1
        if i >= n:
            break
        depth, j = 0, i
        while j < n:
            c = text[j]
            if c in "([{":
                depth += 1
            elif c in ")]}":
                depth -= 1
            elif depth == 0 and text.startswith("=>", j):
                break
            j += 1
        if j >= n:
            raise T.TranslateError("arm without =>")
        pat = text[i:j]
        if re.search(r"\bif\b", pat):
            raise T.TranslateError("guarded arm: %s" % norm(pat))
        j += 2
        while text[j] in " \n\t\r":
            j += 1
        if text[j] == "{":
            k = matching(text, j, "{", "}")
            body = text[j:k + 1]
            i = k + 1
        else:
            depth, k = 0, j
            while k < n:
                c = text[k]
                if c in "([{":
                    depth += 1
                elif c in ")]}":
                    depth -= 1
                elif c == "," and depth == 0:
                    break
                k += 1
            body = text[j:k]
            i = k + 1
        pats, binds = [], None
        for a in split_top(pat, "|"):
            if not norm(a):
                continue
            pp, b = parse_pattern(a)
            pats.append(pp)
            binds = b if binds is None else (binds & b)
        arms.append((pats, parse_body(body, binds or set())))
    return arms


def pair_test_source():
    s = strip_comments(T.src("src/textselection.rs"))
    m = re.search(r"impl TestTextSelection for TextSelection \{", s)
    if not m:
        raise T.TranslateError("impl TestTextSelection for TextSelection not found")
    if len(re.findall(r"impl TestTextSelection for TextSelection \{", s)) != 1:
        raise T.TranslateError("more than one impl TestTextSelection for TextSelection")
    start = m.end() - 1
    end = matching(s, start, "{", "}")
    impl = s[start + 1:end]
    m = re.search(r"fn test\(\s*&self,\s*operator: &TextSelectionOperator,\s*reftextsel: &TextSelection,\s*resource: &TextResource,?\s*\) -> bool \{", impl)
    if not m:
        raise T.TranslateError("fn test(&self, operator, reftextsel, resource) -> bool not found")
    b0 = m.end() - 1
    b1 = matching(impl, b0, "{", "}")
    body = norm(impl[b0 + 1:b1])
    m = re.match(r"^match operator \{(.*)\}$", body, flags=re.S)
    if not m:
        raise T.TranslateError("the body of the pair test is not a single `match operator { .. }`: %s" % body[:120])
    return m.group(1)


@T.gen("RelPairTable.v")
def relpair_arms():
    arms = parse_arms(pair_test_source())
    if not arms:
        raise T.TranslateError("no arms")
    # the constant the model uses
    s = strip_comments(T.src("src/textselection.rs"))
    m = re.search(r"const WHITESPACE_LIMIT: usize = (\d+);", s)
    if not m:
        raise T.TranslateError("const WHITESPACE_LIMIT not found")
    lines = ["(* GENERATED by tools/translate_relpair.py from src/textselection.rs (impl TestTextSelection for",
             "   TextSelection, fn test) on every run. Do not edit. *)",
             "From Coq Require Import List.", "Import ListNotations.",
             "From Stam Require Import Model.Rel Model.RelArms.", "",
             "Definition src_whitespace_limit : nat := %s." % m.group(1), "",
             "Definition pair_arms : list parm := ["]
    rows = []
    for pats, body in arms:
        rows.append("  mkparm [%s]\n    %s" % ("; ".join(pats), body))
    lines.append(";\n".join(rows))
    lines.append("].")
    return "\n".join(lines) + "\n"
