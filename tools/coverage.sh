#!/bin/bash
# tools/coverage.sh : which functions of /repo/src does no quick run reach?  Builds the harness binaries
# with -C instrument-coverage on the nightly toolchain (its llvm-tools), runs every generator once,
# merges the profiles and prints, per source file, the functions with no execution at all.
# Output directory: /root/scratch/cov (removed first). Used to direct extensions of the harnesses.
set -e
D=/root/scratch/cov; rm -rf $D; mkdir -p $D
B=$(dirname $(find ~/.rustup/toolchains/nightly-*/lib/rustlib -name llvm-cov | head -1))
(cd /verif/harness && CARGO_NET_OFFLINE=true CARGO_TARGET_DIR=$D/target RUSTFLAGS="--cfg stam_verif -Awarnings -C instrument-coverage" cargo +nightly build --offline --quiet --bins)
cd $D
PROPS=$(ls /verif/harness/src/bin | sed 's/\.rs$//')
for p in $PROPS; do LLVM_PROFILE_FILE=$D/$p-%p-%m.profraw timeout 1200 ./target/debug/$p gen quick 20260926 $D/$p.cases $D/$p.stats >/dev/null 2>&1 || true; done
$B/llvm-profdata merge -sparse *.profraw -o all.profdata
first=$(echo $PROPS | cut -d' ' -f1); OBJ=$(for p in $PROPS; do [ $p != $first ] && echo "-object target/debug/$p"; done)
$B/llvm-cov export -format=lcov -instr-profile=all.profdata target/debug/$first $OBJ /repo/src > all.lcov 2>/dev/null
python3 - <<'P'
import re,collections
cur=None; fns=collections.defaultdict(dict)
for l in open('/root/scratch/cov/all.lcov'):
    l=l.strip()
    if l.startswith('SF:'): cur=l[3:]
    elif l.startswith('FN:'):
        ln,name=l[3:].split(',',1); fns[cur].setdefault(name,[int(ln),0])
    elif l.startswith('FNDA:'):
        c,name=l[5:].split(',',1)
        if name in fns[cur]: fns[cur][name][1]+=int(c)
tot=unc_t=0
for f in sorted(fns):
    if not f.startswith('/repo/src'): continue
    byline=collections.defaultdict(int)
    for name,(ln,c) in fns[f].items(): byline[ln]+=c
    unc=sorted(ln for ln,c in byline.items() if c==0)
    txt=open(f).read().split('\n'); names=[]
    for ln in unc:
        for k in range(ln-1, max(ln-4,0)-1, -1):
            m=re.search(r'fn\s+(\w+)', txt[k]) if k < len(txt) else None
            if m: names.append('%s:%d'%(m.group(1),ln)); break
        else: names.append('L%d'%ln)
    tot+=len(byline); unc_t+=len(unc)
    print(f.replace('/repo/src/',''), '%d/%d not reached:'%(len(unc),len(byline)), ' '.join(names))
print('TOTAL functions', tot, 'not reached', unc_t)
P
find /verif /repo -name "*.profraw" -delete 2>/dev/null   # child processes of some harnesses write their profile into the current directory
