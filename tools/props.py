"""Per-property configuration of tools/check."""
import os
import re
import common as C

TRUSTED_BASE = [
    "Coq 8.16.1 kernel (coqc; vm_compute used for finite tables and witnesses; no native_compute)",
    "Coq extraction with ExtrOcamlBasic only (bool, option, unit, prod, list, sumbool, sumor -> OCaml built-ins); OCaml 4.13.1, dune",
    "ocaml/driver.ml + ocaml/runs.ml (hand-written generic comparison driver) and the decoders in coq/Run/*.v",
    "harness/ (Rust generators, canonicalisation, catch_unwind) and tools/check, tools/translate.py",
    "coq/Model/*.v are hand transcriptions of /repo/src tied to the code by the correspondence run only",
    "rustc/cargo, Rust std, and the crates stam depends on",
]


def known_findings(prop):
    """class name -> description, from the committed KNOWN_FINDINGS.txt (never written at run time)."""
    out = {}
    path = os.path.join(C.VERIF, "KNOWN_FINDINGS.txt")
    if not os.path.exists(path):
        return out
    for line in open(path):
        line = line.strip()
        m = re.match(r"finding:\s+property=(\S+)\s+class=(\S+)\s+(.*)$", line)
        if m and m.group(1) == prop:
            out[m.group(2)] = m.group(3)
    return out


def gen_relevant(prop, problem):
    return problem["file"] in PROPS[prop].get("gen", [])


HOOK_COMMITS = ["f912e2b", "daf5fa0", "f558b05"]

UNCLAIMED = {}

PROPS = {
    "C04": {
        "coq_targets": ["Props/C04.v", "Run/C04.v"],
        "audit": "Audit/C04.v",
        "gen": [],
        "classes": {},
        "level_text": "Unbounded Coq theorems over the model of cursor/offset resolution and reporting: an offset is accepted iff it denotes 0 <= begin <= end <= len (resource level, relative to a parent selection, and through FindText::textselection), for every pair of cursors of either alignment and every nesting depth (C04_chain_inside by induction on the chain); the text of an accepted range is exactly its codepoints (byte slicing through any consistent index = codepoint slicing); every reported offset has well-formed cursors, the requested alignment and re-resolves to the same range in all four modes. Tied to the code by exhaustive depth-1/depth-2 and random deeper correspondence through annotate(), text(), textselections(), FindText::textselection and Selector::offset_with_mode.",
        "level_note": "Trusted: Coq kernel, extraction, driver, harness, transcriptions Model/Offset.v and Model/Utf8.v (checked by execution). isize/usize overflow (isize::MIN.abs()) not modelled. Print Assumptions: closed under the global context.",
        "assumptions": ["positions fit in usize/isize (no overflow)", "parents of relative offsets are well-formed selections inside the text (proved inductively: C04_chain_inside)"],
    },
    "C12": {
        "coq_targets": ["Props/C12.v", "Run/C12.v"],
        "audit": "Audit/C12.v",
        "gen": [],
        "classes": {},
        "level_text": "Unbounded Coq theorems over the model of create_milestones / utf8byte / utf8byte_to_charpos / the position-index update of inserted() and the relative variants on sub-selections: under any consistent index the conversions are exact for every position 0..=len, reject positions beyond the text and bytes inside a character, never panic; milestones for any interval (0 included) are consistent and every inserted annotation keeps the index consistent, so every reachable index is; two consistent indices answer identically (knob independence: milestone_interval and prior annotations; shrink_to_fit has no observable in the model). Tied to the code by correspondence over mixed-width texts, every position and byte offset, intervals {0,1,2,3,7,100} x shrink on/off x before/after annotations, on resources and sub-selections (utf8byte, utf8byte_to_charpos, text, text_by_offset).",
        "level_note": "Trusted: Coq kernel, extraction, driver, harness, transcription Model/Utf8.v (checked by execution); Rust str::char_indices and String byte slicing; the pointer arithmetic of subslice_utf8_offset is modelled as the byte position of the selection's begin. Print Assumptions: closed under the global context.",
        "assumptions": ["UTF-8 encoding lengths of scalar values as in clen (1-4 bytes)"],
    },
    "C13": {
        "coq_targets": ["Props/C13.v", "Run/C13.v"],
        "audit": "Audit/C13.v",
        "gen": ["Gen/RelPairTable.v", "Gen/RelTsSetTable.v", "Gen/RelSetTables.v"],
        "classes": {},
        "assumptions": [
            "text selections handed to the tests come from the API, hence are well-formed (begin <= end) and carry the handle of the known selection with the same range, if any",
            "the whitespace test of Precedes/Succeeds is char::is_whitespace on the gap; the model receives it as a flag per codepoint",
        ],
        "level_text": "Unbounded Coq theorems over the model of the four TestTextSelection implementations: model = documented interval/min-max meaning for every pair and every pair of sets, every operator and modifier (C13_pair_spec, C13_*_set_spec), the interval definitions, converse, symmetry, implication, complement and singleton laws, intersection; the pair test is additionally tied to the source by a translator: tools/translate_relpair.py reads the match arms of `impl TestTextSelection for TextSelection { fn test }` (patterns and bodies as expression trees) into Gen/RelPairTable.v on every run, and C13_code_pair_test_is_the_model proves that this table, evaluated as Rust evaluates it (first matching arm, short-circuit && / ||, checked usize subtraction), is the model's test_pair for every operator, modifier combination, text and pair of selections, with no subtraction underflowing; tools/translate_relset.py does the same for the test of one selection against a set (`fn test_set` of the same impl: the any / all loops over the pair test, the emptiness guard, the folded minimum / maximum, the negation arm; C13_code_ts_set_test_is_the_model, for sets of any size), and tools/translate_relsets.py for the two tests of TextSelectionSet (C13_code_set_ts_test_is_the_model, C13_code_set_set_test_is_the_model): every arm of every relation test of src/textselection.rs is read from the source on every run; the whole model (pair and set tests) is tied to the code by an exhaustive small-scope correspondence run (all pairs over positions 0..7, all sets of size <=2, every operator/modifier) plus seeded random sets, evaluated on the extracted model and on the real library through the public API.",
        "level_note": "Trusted: Coq kernel, extraction (ExtrOcamlBasic), OCaml driver, Rust harness, the hand transcription Model/Rel.v (the pair test re-derived from the source by tools/translate_relpair.py and proved equal on every run; the selection-against-set test and the two tests of TextSelectionSet likewise by tools/translate_relset.py and tools/translate_relsets.py (loops and delegations are recognised as fixed statement forms, not compiled); leftmost / rightmost / begin / end of a set and the API wrappers checked by execution only), the translator itself (a parser for the expression subset the pair test uses; anything else stops it), slice sort/binary_search. Print Assumptions: closed under the global context for all property theorems. Well-formedness (begin<=end) and handle coherence of API-produced selections are hypotheses.",
        "trusted": ["smallvec / slice::sort_unstable and binary_search (TextSelectionSet::sort/add are not modelled; the harness reads the set back after construction)"],
    },
}


# per-property configuration files: tools/props.d/Cxx.json (same keys as above; "classes" keys are
# strings in JSON and converted to int here)
import glob as _glob
import json as _json
for _f in sorted(_glob.glob(os.path.join(C.VERIF, "tools", "props.d", "C*.json"))):
    _cfg = _json.load(open(_f))
    _pid = os.path.basename(_f)[:-5]
    _cfg["classes"] = {int(k): v for k, v in _cfg.get("classes", {}).items()}
    _cfg.setdefault("gen", [])
    PROPS[_pid] = _cfg
_u = os.path.join(C.VERIF, "tools", "props.d", "UNCLAIMED.json")
if os.path.exists(_u):
    UNCLAIMED.update(_json.load(open(_u)))
