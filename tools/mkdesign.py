#!/usr/bin/env python3
"""Assemble DESIGN.md from tools/design_head.md (hand-written) and generated sections:
4.x per property (from tools/props.py / props.d, KNOWN_FINDINGS.txt, notes), 6 defects, 9 seeded changes."""
import glob, json, os, re, sys
sys.path.insert(0, os.path.dirname(os.path.abspath(__file__)))
import props as P
V = os.path.dirname(os.path.dirname(os.path.abspath(__file__)))
head = open(os.path.join(V, 'tools', 'design_head.md')).read()
titles = {}
for l in open(os.path.join(V, 'properties.jsonl')):
    d = json.loads(l); titles[d['id']] = d['title']
fixed, finding = {}, {}
for line in open(os.path.join(V, 'KNOWN_FINDINGS.txt')):
    m = re.match(r'fixed:\s+property=(\S+)\s+(\S+)\s+(.*)$', line.strip())
    if m: fixed.setdefault(m.group(1), []).append((m.group(2), m.group(3)))
    m = re.match(r'finding:\s+property=(\S+)\s+class=(\S+)\s+(.*)$', line.strip())
    if m: finding.setdefault(m.group(1), []).append((m.group(2), m.group(3)))
seeds = {}
for f in sorted(glob.glob(os.path.join(V, 'seeded', 'C*', 'meta.json'))):
    d = json.load(open(f)); seeds.setdefault(d['property'], []).append((os.path.basename(os.path.dirname(f)), d))

sec4 = ["## 4. The properties (as built)\n",
        "For each: **Proved** = the level text registered in MANIFEST.json; **Trusted / limits** = the level note; "
        "known findings and fixes from KNOWN_FINDINGS.txt; seeded changes from section 9. Details: `notes/Cxx.md` "
        "(C01 C02 C03 C10 C14: section 3 above and the comments in `coq/Props/Cxx.v`).\n"]
for pid in sorted(titles):
    cfg = P.PROPS.get(pid)
    sec4.append("### %s %s\n" % (pid, titles[pid]))
    if not cfg or not cfg.get('claimed', True):
        sec4.append("Not registered yet (check under construction): " + P.UNCLAIMED.get(pid, "see MANIFEST.json not_applicable") + "\n")
        continue
    sec4.append("**Proved.** " + cfg['level_text'] + "\n")
    sec4.append("**Trusted / limits.** " + cfg['level_note'] + "\n")
    if cfg.get('assumptions'):
        sec4.append("**Hypotheses.** " + "; ".join(cfg['assumptions']) + ".\n")
    if finding.get(pid):
        sec4.append("**Known findings (not repaired: not small or not safe).** " + " ".join("`%s`: %s" % (c, t) for c, t in finding[pid]) + "\n")
    if fixed.get(pid):
        sec4.append("**Repaired in /repo:** " + ", ".join("`%s`" % c for c, _ in fixed[pid]) + " (section 6).\n")
    if seeds.get(pid):
        sec4.append("**Seeded changes:** " + "; ".join("%s %s" % (n, "caught by " + ",".join(d['caught_by']) if d['caught_by'] else "NOT caught") for n, d in seeds[pid]) + ".\n")
    if os.path.exists(os.path.join(V, 'notes', pid + '.md')):
        sec4.append("Details: `notes/%s.md`.\n" % pid)

sec6 = ["## 6. Defects found in the pinned code\n",
        "Every entry was first a VIOLATION of the owning check with the concrete input shown, confirmed on the real library, "
        "then either repaired by one minimal `fix:` commit (the unedited test suite passes after each) or recorded as a known "
        "finding by class. `fixed:` entries suppress nothing: the check reports the violation again if it returns.\n",
        "| property | commit | what failed |", "|---|---|---|"]
for pid in sorted(fixed):
    for c, t in fixed[pid]:
        sec6.append("| %s | `%s` | %s |" % (pid, c, t.replace('|', '\\|')))
sec6.append("")
sec6.append("| property | known class | what fails |")
sec6.append("|---|---|---|")
for pid in sorted(finding):
    for c, t in finding[pid]:
        sec6.append("| %s | `%s` | %s |" % (pid, c, t.replace('|', '\\|')))
sec6.append("")

sec9 = ["## 9. Seeded changes (self-validation of the checks)\n",
        "Written by separate sessions that were given only the text of one property and a scratch worktree of /repo. Each change "
        "compiles and passes the existing test suite; its demonstration test fails with the change and passes without it "
        "(all re-confirmed by `tools/seedtest.py` in the scratch worktree). The checks were then run against the changed tree "
        "(`VERIF_REPO=<worktree> tools/check Cxx`). Files: `seeded/<id>-<n>/{patch.diff, demo.rs, meta.json}`.\n",
        "| seed | what it breaks | needs to manifest | caught by (first failing input in meta.json) |", "|---|---|---|---|"]
for pid in sorted(seeds):
    for n, d in seeds[pid]:
        caught = ", ".join(d['caught_by']) if d['caught_by'] else "**not caught**"
        if not d.get('valid', True): caught += " (seed not valid: see meta.json)"
        sec9.append("| %s | %s | %s | %s |" % (n, d['breaks'].replace('|', '\\|').replace('\n', ' ')[:400], d['needs_to_manifest'].replace('|', '\\|').replace('\n', ' ')[:300], caught))
sec9.append("")
hf = os.path.join(V, 'seeded', 'harmless', 'results.json')
if os.path.exists(hf):
    res = json.load(open(hf))
    sec9.append("### Behaviour-preserving rewrites (false-alarm test)\n")
    sec9.append("Written by a session that saw only the repository and was asked for ordinary refactorings with identical observable "
                "behaviour (each passes the existing suite). Every registered check was run against each (`tools/harmless.py`, "
                "`seeded/harmless/`): a failing check here is a false alarm.\n")
    sec9.append("| rewrite | files | what | checks passing | false alarms |")
    sec9.append("|---|---|---|---|---|")
    for n in sorted(res, key=int):
        e = res[n]
        ok = [c for c, r in e['checks'].items() if r['rc'] == 0]
        bad = [c for c, r in e['checks'].items() if r['rc'] != 0]
        sec9.append("| H%s | %s | %s | %d/%d | %s |" % (n, ", ".join(e.get('files') or []), (e.get('what') or '').replace('|', '\\|')[:300],
                                                  len(ok), len(e['checks']), ", ".join(bad) or "none"))
    sec9.append("")
extra = os.path.join(V, 'tools', 'design_selftest.md')
if os.path.exists(extra):
    sec9.append(open(extra).read())

parts = head.split('\n## 5. Trusted base')
out = parts[0] + "\n" + "\n".join(sec4) + "\n## 5. Trusted base" + parts[1]
parts = out.split('\n## 7. Limits')
out = parts[0] + "\n" + "\n".join(sec6) + "\n## 7. Limits" + parts[1]
out = out.rstrip('\n') + "\n\n" + "\n".join(sec9) + "\n"
open(os.path.join(V, 'DESIGN.md'), 'w').write(out)
print("DESIGN.md written:", len(out.split('\n')), "lines")
