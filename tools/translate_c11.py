"""C11 translator: the CBOR wire schema of stam-rust as a Gallina value.

Reads every `#[derive(... Encode ... Decode ...)]` item of /repo/src (whatever tree
VERIF_REPO points to), follows the field types from `AnnotationStore` (type aliases
expanded, generic items instantiated per use), and writes coq/Gen/CborSchema.v:

    Definition extracted_schema : schema := [ (name, IStruct transparent [mkField name idx ty codec; ...]); ... ].

What the derive would see is reproduced: `#[n(k)]` / `#[n[k]]` / `#[b(k)]` / `#[cbor(n(k), ...)]`,
`#[cbor(skip)]`, `#[cbor(transparent)]`, `encode_with` / `decode_with`, `#[cfg(feature = "...")]`
(resolved against the default features of Cargo.toml).  Anything the model does not cover
(map encoding, index_only, tag, with/nil/is_nil/has_nil, an unknown type) raises
TranslateError, so the agreement proof fails loudly instead of reusing a stale schema."""
import os
import re

import common as C
import translate as T


class Err(T.TranslateError):
    pass


SRC_FILES = None


def strip_comments(s):
    out = []
    i = 0
    n = len(s)
    while i < n:
        c = s[i]
        if c == '"':
            j = i + 1
            while j < n and s[j] != '"':
                if s[j] == "\\":
                    j += 1
                j += 1
            out.append(s[i:j + 1])
            i = j + 1
        elif s.startswith("//", i):
            while i < n and s[i] != "\n":
                i += 1
        elif s.startswith("/*", i):
            depth = 1
            i += 2
            while i < n and depth:
                if s.startswith("/*", i):
                    depth += 1
                    i += 2
                elif s.startswith("*/", i):
                    depth -= 1
                    i += 2
                else:
                    i += 1
        elif c == "'" and i + 2 < n and (s[i + 2] == "'" or (s[i + 1] == "\\" and s.find("'", i + 2) - i <= 8 and s.find("'", i + 2) > 0)):
            # char literal
            j = s.find("'", i + 2)
            out.append(s[i:j + 1])
            i = j + 1
        else:
            out.append(c)
            i += 1
    return "".join(out)


OPEN = {"(": ")", "[": "]", "{": "}", "<": ">"}
CLOSE = {v: k for k, v in OPEN.items()}


def match_close(s, i):
    """s[i] is an opening bracket; index of its partner.  `<`/`>` only pair inside types
    (we are only ever called on type or attribute text, where `->` does not occur)."""
    stack = [s[i]]
    j = i + 1
    while j < len(s):
        c = s[j]
        if c == '"':
            j += 1
            while s[j] != '"':
                if s[j] == "\\":
                    j += 1
                j += 1
        elif c in OPEN and not (c == "<" and stack[-1] in "([" and False):
            stack.append(c)
        elif c in CLOSE:
            if CLOSE[c] != stack[-1]:
                if c == ">":   # stray comparison / arrow: ignore
                    j += 1
                    continue
                raise Err("unbalanced bracket near: " + s[max(0, i - 20):j + 20])
            stack.pop()
            if not stack:
                return j
        j += 1
    raise Err("unterminated bracket near: " + s[i:i + 60])


def split_top(s, sep=","):
    parts = []
    depth = 0
    cur = []
    i = 0
    while i < len(s):
        c = s[i]
        if c == '"':
            j = i + 1
            while s[j] != '"':
                if s[j] == "\\":
                    j += 1
                j += 1
            cur.append(s[i:j + 1])
            i = j + 1
            continue
        if c in OPEN:
            depth += 1
        elif c in CLOSE:
            depth -= 1
        if c == sep and depth == 0:
            parts.append("".join(cur))
            cur = []
        else:
            cur.append(c)
        i += 1
    if "".join(cur).strip():
        parts.append("".join(cur))
    return [p.strip() for p in parts if p.strip()]


def take_attrs(s):
    """leading `#[...]` attributes of s: (list of attribute bodies, rest)"""
    attrs = []
    s = s.lstrip()
    while s.startswith("#"):
        k = s.index("[")
        if s[1:k].strip() not in ("", "!"):
            raise Err("odd attribute: " + s[:40])
        e = match_close(s, k)
        attrs.append(s[k + 1:e].strip())
        s = s[e + 1:].lstrip()
    return attrs, s


def default_features():
    toml = open(os.path.join(C.REPO, "Cargo.toml")).read()
    m = re.search(r"^\s*default\s*=\s*\[(.*?)\]", toml, flags=re.S | re.M)
    if not m:
        return set()
    return set(re.findall(r'"([^"]+)"', m.group(1)))


class Attrs:
    def __init__(self):
        self.idx = None
        self.skip = False
        self.transparent = False
        self.enc = None
        self.dec = None
        self.enabled = True


def parse_attrs(attrs, feats, where):
    a = Attrs()
    for at in attrs:
        m = re.match(r"^(\w+)\s*(.*)$", at, flags=re.S)
        if not m:
            raise Err("cannot read attribute `%s` at %s" % (at, where))
        head, rest = m.group(1), m.group(2).strip()
        if head in ("n", "b"):
            k = re.match(r"^[\(\[\{]\s*(\d+)\s*[\)\]\}]$", rest)
            if not k:
                raise Err("cannot read index attribute `%s` at %s" % (at, where))
            if a.idx is not None:
                raise Err("two indices at " + where)
            a.idx = int(k.group(1))
        elif head == "cbor":
            if not (rest.startswith("(") and match_close(rest, 0) == len(rest) - 1):
                raise Err("cannot read `%s` at %s" % (at, where))
            for part in split_top(rest[1:-1]):
                pm = re.match(r"^(\w+)\s*(.*)$", part, flags=re.S)
                key, val = pm.group(1), pm.group(2).strip()
                if key in ("n", "b"):
                    k = re.match(r"^\(\s*(\d+)\s*\)$", val)
                    if not k:
                        raise Err("cannot read index in `%s` at %s" % (at, where))
                    if a.idx is not None:
                        raise Err("two indices at " + where)
                    a.idx = int(k.group(1))
                elif key == "skip":
                    a.skip = True
                elif key == "transparent":
                    a.transparent = True
                elif key == "array":
                    pass
                elif key in ("encode_with", "decode_with"):
                    v = re.match(r'^=\s*"([^"]+)"$', val)
                    if not v:
                        raise Err("cannot read `%s` at %s" % (part, where))
                    name = v.group(1).split("::")[-1]
                    if key == "encode_with":
                        a.enc = name
                    else:
                        a.dec = name
                elif key == "cbor_len":
                    pass  # CborLen is not used by encode/decode
                else:
                    raise Err("cbor attribute `%s` at %s is outside the modelled scheme" % (key, where))
        elif head == "cfg":
            m2 = re.match(r'^\(\s*feature\s*=\s*"([^"]+)"\s*\)$', rest)
            if not m2:
                raise Err("cfg form `%s` at %s not understood" % (at, where))
            if m2.group(1) not in feats:
                a.enabled = False
        else:
            pass  # derive, serde, doc, data_size, sealed ...
    if a.skip and (a.idx is not None or a.enc or a.dec):
        raise Err("`skip` with other cbor attributes at " + where)
    return a


class Item:
    def __init__(self, name, kind, params, attrs, body, tuple_like, path):
        self.name = name
        self.kind = kind          # struct / enum
        self.params = params      # generic parameter names
        self.attrs = attrs
        self.body = body
        self.tuple_like = tuple_like
        self.path = path


def scan_items(feats):
    """all derive(Encode/Decode) items and all type aliases of the crate"""
    items = {}
    aliases = {}
    srcdir = os.path.join(C.REPO, "src")
    files = []
    for root, _, fns in os.walk(srcdir):
        for fn in sorted(fns):
            if fn.endswith(".rs"):
                files.append(os.path.join(root, fn))
    for path in sorted(files):
        s = strip_comments(open(path).read())
        for m in re.finditer(r"(?:pub(?:\s*\([^)]*\))?\s+)?type\s+(\w+)\s*(<[^=;]*>)?\s*=\s*([^;]+);", s):
            params = [p.strip().split(":")[0].strip() for p in split_top(m.group(2)[1:-1])] if m.group(2) else []
            aliases[m.group(1)] = (params, m.group(3).strip())
        for m in re.finditer(r"#\s*\[\s*derive\s*\(([^\]]*?)\)\s*\]", s):
            derives = [d.strip().split("::")[-1] for d in m.group(1).split(",")]
            has_e, has_d = "Encode" in derives, "Decode" in derives
            if not (has_e or has_d):
                continue
            attrs, rest = take_attrs(s[m.start():])
            hm = re.match(r"(?:pub(?:\s*\([^)]*\))?\s+)?(struct|enum)\s+(\w+)\s*", rest)
            if not hm:
                raise Err("derive(Encode) not followed by a struct/enum in " + path)
            kind, name = hm.group(1), hm.group(2)
            if has_e != has_d:
                raise Err("%s derives only one of Encode/Decode" % name)
            rest = rest[hm.end():]
            params = []
            if rest.startswith("<"):
                e = match_close(rest, 0)
                for p in split_top(rest[1:e]):
                    if p.startswith("'"):
                        continue
                    params.append(p.split(":")[0].strip())
                rest = rest[e + 1:].lstrip()
            tuple_like = False
            if rest.startswith("where"):
                k = rest.index("{")
                rest = rest[k:]
            if rest.startswith("("):
                e = match_close(rest, 0)
                body = rest[1:e]
                tuple_like = True
            elif rest.startswith("{"):
                e = match_close(rest, 0)
                body = rest[1:e]
            elif rest.startswith(";"):
                body = ""
                tuple_like = True
            else:
                raise Err("cannot find the body of " + name)
            if name in items:
                raise Err("two derive(Encode) items named " + name)
            items[name] = Item(name, kind, params, attrs, body, tuple_like, os.path.relpath(path, C.REPO))
    return items, aliases


def parse_type(s):
    """type text -> ('path', name, [args]) | ('tuple', [elems])"""
    s = s.strip()
    if s.startswith("("):
        e = match_close(s, 0)
        if e != len(s) - 1:
            raise Err("cannot read type " + s)
        return ("tuple", [parse_type(p) for p in split_top(s[1:-1])])
    if s.startswith("&") or s.startswith("["):
        raise Err("reference/array/slice type `%s` is outside the modelled scheme" % s)
    m = re.match(r"^([\w:]+)\s*(<.*>)?$", s, flags=re.S)
    if not m:
        raise Err("cannot read type " + s)
    name = m.group(1).split("::")[-1]
    args = []
    if m.group(2):
        inner = m.group(2).strip()
        for p in split_top(inner[1:-1]):
            if p.startswith("'"):
                continue
            args.append(parse_type(p))
    return ("path", name, args)


def type_text(t):
    if t[0] == "tuple":
        return "(" + ",".join(type_text(x) for x in t[1]) + ")"
    if t[2]:
        return t[1] + "<" + ",".join(type_text(x) for x in t[2]) + ">"
    return t[1]


def subst(t, env):
    if t[0] == "tuple":
        return ("tuple", [subst(x, env) for x in t[1]])
    if not t[2] and t[1] in env:
        return env[t[1]]
    return ("path", t[1], [subst(x, env) for x in t[2]])


PRIMS = {"u16": "PU16", "u32": "PU32", "u64": "PU64", "usize": "PU64", "i64": "PI64", "isize": "PI64",
         "bool": "PBool", "String": "PStr", "PathBuf": "PStr", "f64": "PF64"}


def q(s):
    # an identifier of the model: characters of the name (i_ is evaluated away, see below)
    return '(i_ "' + s.replace('"', '""') + '")'


class Gen:
    def __init__(self):
        self.feats = default_features()
        self.items, self.aliases = scan_items(self.feats)
        self.out = []       # (name, text)
        self.done = {}

    def ty(self, t, where, depth=0):
        if depth > 40:
            raise Err("type alias loop at " + where)
        if t[0] == "tuple":
            return "(TTup [" + "; ".join(self.ty(x, where) for x in t[1]) + "])"
        name, args = t[1], t[2]
        if name in PRIMS and not args:
            return "(TP %s)" % PRIMS[name]
        if name == "PhantomData":
            return "(TP PUnit)"
        if name == "Option" and len(args) == 1:
            return "(TOpt %s)" % self.ty(args[0], where)
        if name == "Vec" and len(args) == 1:
            return "(TVec %s)" % self.ty(args[0], where)
        if name in ("BTreeMap", "HashMap") and len(args) == 2:
            return "(TMapT %s %s)" % (self.ty(args[0], where), self.ty(args[1], where))
        if name == "Box" and len(args) == 1:
            return self.ty(args[0], where)
        if name in self.aliases:
            params, body = self.aliases[name]
            if len(params) != len(args):
                raise Err("alias %s used with %d arguments at %s" % (name, len(args), where))
            return self.ty(subst(parse_type(body), dict(zip(params, args))), where, depth + 1)
        if name in self.items:
            return "(TRef %s)" % q(self.instantiate(name, args, where))
        raise Err("type `%s` at %s is neither a known primitive/container nor a derive(Encode, Decode) item" % (type_text(t), where))

    def skipped_ty(self, t, where):
        # a skipped field only needs a Default; look through the interior-mutability wrappers
        while t[0] == "path" and t[1] in ("Arc", "RwLock", "Mutex", "RefCell", "Cell", "Rc") and len(t[2]) == 1:
            t = t[2][0]
        return self.ty(t, where)

    def fields(self, body, tuple_like, env, where):
        out = []
        pos = 0
        for part in split_top(body):
            attrs, rest = take_attrs(part)
            a = parse_attrs(attrs, self.feats, where)
            if not a.enabled:
                continue
            rest = re.sub(r"^pub(\s*\([^)]*\))?\s+", "", rest)
            if tuple_like:
                fname, ftxt = "_%d" % pos, rest
            else:
                m = re.match(r"^(\w+)\s*:\s*(.*)$", rest, flags=re.S)
                if not m:
                    raise Err("cannot read field `%s` of %s" % (rest[:40], where))
                fname, ftxt = m.group(1), m.group(2)
            pos += 1
            w = "%s.%s" % (where, fname)
            if a.enc or a.dec:
                if not (a.enc and a.dec):
                    raise Err("field %s has only one of encode_with/decode_with" % w)
                if a.idx is None:
                    raise Err("field %s has a codec but no index" % w)
                # the derive never looks into the type of such a field
                out.append("mkField %s (Some %d) (TOpaque %s) (Some (%s, %s))" % (q(fname), a.idx, q(re.sub(r"\s+", "", ftxt)), q(a.enc), q(a.dec)))
                continue
            t = subst(parse_type(ftxt), env)
            if a.skip:
                out.append("mkField %s None %s None" % (q(fname), self.skipped_ty(t, w)))
                continue
            if a.idx is None:
                raise Err("field %s has neither an index nor skip" % w)
            out.append("mkField %s (Some %d) %s None" % (q(fname), a.idx, self.ty(t, w)))
        return out

    def instantiate(self, name, args, where):
        it = self.items[name]
        if len(args) != len(it.params):
            raise Err("%s used with %d type arguments at %s (declared with %d)" % (name, len(args), where, len(it.params)))
        full = name if not args else name + "<" + ",".join(type_text(a) for a in args) + ">"
        if full in self.done:
            return full
        self.done[full] = True
        slot = len(self.out)
        self.out.append(None)
        env = dict(zip(it.params, args))
        a = parse_attrs(it.attrs, self.feats, name)
        if it.kind == "struct":
            fs = self.fields(it.body, it.tuple_like, env, full)
            text = "IStruct %s [\n      %s ]" % ("true" if a.transparent else "false", ";\n      ".join(fs))
        else:
            if a.transparent:
                raise Err("transparent enum " + name)
            vs = []
            for part in split_top(it.body):
                attrs, rest = take_attrs(part)
                va = parse_attrs(attrs, self.feats, full)
                if not va.enabled:
                    continue
                m = re.match(r"^(\w+)\s*(.*)$", rest, flags=re.S)
                vname, vrest = m.group(1), m.group(2).strip()
                if va.idx is None:
                    raise Err("variant %s::%s has no index" % (full, vname))
                if va.skip or va.enc or va.dec or va.transparent:
                    raise Err("unsupported attribute on variant %s::%s" % (full, vname))
                w = "%s::%s" % (full, vname)
                if vrest == "":
                    vs.append("mkVariant %s %d true []" % (q(vname), va.idx))
                elif vrest.startswith("("):
                    e = match_close(vrest, 0)
                    fs = self.fields(vrest[1:e], True, env, w)
                    vs.append("mkVariant %s %d false [\n        %s ]" % (q(vname), va.idx, ";\n        ".join(fs)))
                elif vrest.startswith("{"):
                    e = match_close(vrest, 0)
                    fs = self.fields(vrest[1:e], False, env, w)
                    vs.append("mkVariant %s %d false [\n        %s ]" % (q(vname), va.idx, ";\n        ".join(fs)))
                else:
                    raise Err("cannot read variant " + w)
            text = "IEnum [\n      %s ]" % ";\n      ".join(vs)
        self.out[slot] = (full, text, it.path)
        return full


ROOT = "AnnotationStore"


@T.gen("CborSchema.v")
def cbor_schema():
    g = Gen()
    if ROOT not in g.items:
        raise Err("no derive(Encode, Decode) item named " + ROOT)
    root = g.instantiate(ROOT, [], "root")
    lines = ["(* GENERATED by tools/translate_c11.py from the Rust source (every derive(Encode, Decode) item",
             "   reachable from AnnotationStore).  Do not edit: rewritten on every check run. *)",
             "From Coq Require Import String.",
             "From Coq Require Import List.",
             "Import ListNotations.",
             "From Stam Require Import Model.Cbor.",
             "Local Open Scope string_scope.",
             "",
             "(* identifiers are character lists; [Eval vm_compute] removes every [i_ \"...\"], so that no",
             "   value of Coq's [string] type occurs in the definitions (they are extracted to OCaml) *)",
             "Definition extracted_root : ident := Eval vm_compute in %s." % q(root),
             "",
             "Definition extracted_schema : schema := Eval vm_compute in ["]
    ents = []
    for full, text, path in g.out:
        ents.append("  (* %s *)\n  (%s, %s)" % (path, q(full), text))
    lines.append(";\n".join(ents))
    lines.append("].")
    lines.append("")
    return "\n".join(lines)
